#!/bin/bash
# usage: bin/benign_par.sh [secs=30] [lanes=4] [only-regex]
# For every behaviour-preserving change under /verif/benign/<id>/ (patch.diff, meta.json with the
# list of checks): apply it in a private worktree, build a private copy of the simulator against
# it and run each listed check (quick). One line per (change, check): SILENT (exit 0) or ALARM.
SECS="${1:-30}"; LANES="${2:-4}"; ONLY="${3:-.}"
cd /verif
BASE=/tmp/benignlane.$$
mkdir -p "$BASE"
ls -d benign/*/ | grep -E "$ONLY" > "$BASE/all.txt"
for i in $(seq 1 "$LANES"); do awk -v n="$LANES" -v i="$i" 'NR%n==i%n' "$BASE/all.txt" > "$BASE/list.$i"; done
lane() {
  i="$1"; L="$BASE/l$i"; mkdir -p "$L"
  git -C /repo worktree add -q --detach "$L/repo" HEAD || return
  rsync -a --exclude target /verif/sim/ "$L/sim/"
  sed -i "s#\"/repo/#\"$L/repo/#" "$L/sim/Cargo.toml"
  export CARGO_NET_OFFLINE=true CARGO_BUILD_JOBS=$((16 / LANES))
  while read -r d; do
    n=$(basename "$d")
    if ! git -C "$L/repo" apply "/verif/$d/patch.diff" 2>/dev/null; then echo "$n: PATCH-FAILED"; continue; fi
    if (cd "$L/sim" && cargo build --offline -q 2> "$L/build.log"); then
      for p in $(python3 -c "import json; print(' '.join(json.load(open('/verif/$d/meta.json'))['checks']))"); do
        R="$L/root"; rm -rf "$R"; mkdir -p "$R"; cp /verif/known_findings.json "$R/"; cp -r /verif/corpus "$R/corpus"
        out=$(cd /verif && VERIF_SECS=$SECS VERIF_ROOT="$R" VERIF_WORKERS=$((16 / LANES)) "$L/sim/target/debug/brushsim" check "$p" quick 2>&1); rc=$?
        if [ $rc -eq 0 ] && ! echo "$out" | grep -q "^VIOLATION"; then echo "$n $p: SILENT";
        else echo "$n $p: ALARM rc=$rc $(echo "$out" | grep -E '^(VIOLATION|HARNESS)' | head -2 | cut -c1-600)"; fi
      done
    else echo "$n: BUILD-FAILED $(tail -3 "$L/build.log" | tr '\n' ' ')"; fi
    git -C "$L/repo" checkout -q -- .
  done < "$BASE/list.$i"
  git -C /repo worktree remove --force "$L/repo"
}
for i in $(seq 1 "$LANES"); do lane "$i" & done
wait
git -C /repo worktree prune
rm -rf "$BASE"
