#!/bin/bash
# For every kept seeded change: apply it, run the property's quick check, and keep the minimised
# failing cases as corpus files (they must PASS on a correct tree; bin/check replays them first).
cd /verif
declare -A PROP
for d in seeded/*/; do
  n=$(basename "$d")
  p=$(python3 -c "import json,sys; print(json.load(open('$d/meta.json'))['property'])" 2>/dev/null) || continue
  [ -z "$p" ] && continue
  rm -rf /tmp/vr_seeded/replays
  bin/try_seeded.sh "/verif/$d" "$p" "${1:-20}" > /tmp/corpus_try.txt 2>&1
  mkdir -p "corpus/$p"
  i=0
  for f in /tmp/vr_seeded/replays/*.json; do
    [ -f "$f" ] || continue
    i=$((i+1))
    cp "$f" "corpus/$p/$n-$i.json"
  done
  echo "$n ($p): $i corpus cases"
done
