#!/bin/bash
# Runs every kept seeded change against its property's quick check (VERIF_SECS=${1:-20}) and
# prints one line per change: CAUGHT / MISSED / PATCH-FAILED. /repo must be clean.
cd /verif
for d in seeded/*/; do
  n=$(basename "$d")
  p=$(python3 -c "import json; m=json.load(open('$d/meta.json')); print(m.get('check', m['property']))" 2>/dev/null) || continue
  out=$(bin/try_seeded.sh "/verif/$d" "$p" "${1:-20}" 2>&1)
  if echo "$out" | grep -q "patch does not apply"; then echo "$n ($p): PATCH-FAILED";
  elif echo "$out" | grep -q "^VIOLATION"; then echo "$n ($p): CAUGHT $(echo "$out" | grep -c '^VIOLATION') $(echo "$out" | grep '^VIOLATION' | sed 's/.*class=\([^ ]*\).*/\1/' | sort -u | tr '\n' ' ')";
  else echo "$n ($p): MISSED"; fi
done
