#!/usr/bin/env python3
"""Compare a nextest junit.xml against BASELINE.json stable_pass: prints regressions."""
import json, sys, xml.etree.ElementTree as ET
junit = sys.argv[1] if len(sys.argv) > 1 else "/repo/target/nextest/pb/junit.xml"
base = json.load(open("/root/.vp/BASELINE.json"))
stable = set(base["stable_pass"])
passed, failed = set(), set()
for tc in ET.parse(junit).getroot().iter("testcase"):
    tid = (tc.get("classname") or "") + "::" + (tc.get("name") or "")
    if tc.find("failure") is not None or tc.find("error") is not None or tc.find("flakyFailure") is not None or tc.find("rerunFailure") is not None:
        failed.add(tid)
    elif tc.find("skipped") is None:
        passed.add(tid)
passed -= failed
missing = sorted(stable - passed)
print(f"stable_pass={len(stable)} passed_now={len(passed)} failed_now={len(failed)} regressions={len(missing)}")
for m in missing[:50]:
    print("REGRESSION", m)
sys.exit(1 if missing else 0)
