#!/bin/bash
# usage: confirm_seeded.sh <worktree> <seeded dir> <demo mode: env|stdin|file>
# Confirms in a scratch worktree that a seeded change compiles, fails its demo, passes the
# existing suite (no regressions vs BASELINE stable_pass), and that the demo passes without it.
WT="$1"; D="$2"; MODE="$3"
cd "$WT" || exit 2
git checkout -q -- . ; git apply "$D/patch.diff" || { echo "APPLY-FAILED"; exit 2; }
cargo build --offline -q -p brush-shell 2>/dev/null || { echo "BUILD-FAILED"; git checkout -q -- .; exit 1; }
run_demo() {
  case "$MODE" in
    env) BRUSH="$WT/target/debug/brush" timeout 60 bash "$D/demo.sh" >/tmp/demo_out_$(basename "$WT").txt 2>&1 ;;
    stdin) timeout 30 "$WT/target/debug/brush" < "$D/demo.sh" >/tmp/demo_out_$(basename "$WT").txt 2>&1 ;;
    file) timeout 30 "$WT/target/debug/brush" "$D/demo.sh" >/tmp/demo_out_$(basename "$WT").txt 2>&1 ;;
  esac
  echo $?
}
echo "demo_with_change_rc=$(run_demo)"; tail -2 /tmp/demo_out_$(basename "$WT").txt
cargo nextest run --workspace --no-fail-fast --tool-config-file pb:/w/lib/nextest.toml --profile pb --test-threads 8 --offline >/tmp/confirm_suite_$(basename "$WT").log 2>&1
python3 /verif/bin/baseline_compare.py "$WT/target/nextest/pb/junit.xml"
git checkout -q -- .
cargo build --offline -q -p brush-shell 2>/dev/null
echo "demo_without_change_rc=$(run_demo)"; tail -1 /tmp/demo_out_$(basename "$WT").txt
