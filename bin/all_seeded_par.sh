#!/bin/bash
# usage: bin/all_seeded_par.sh [secs=20] [lanes=4] [only-regex]
# Like bin/all_seeded.sh but never touches /repo or /verif/sim/target: every lane has its own
# git worktree of /repo's HEAD and its own copy of the simulator built against that worktree
# (under /tmp/seedlane.*; removed at the end). One line per kept seeded change:
# CAUGHT / MISSED / PATCH-FAILED / BUILD-FAILED. With CORPUS=1 the (at most three) minimised
# failing cases of each change are copied to /verif/corpus/<ID>/.
SECS="${1:-20}"; LANES="${2:-4}"; ONLY="${3:-.}"
cd /verif
BASE=/tmp/seedlane.$$
mkdir -p "$BASE"
ls -d seeded/*/ | grep -E "$ONLY" > "$BASE/all.txt"
for i in $(seq 1 "$LANES"); do awk -v n="$LANES" -v i="$i" 'NR%n==i%n' "$BASE/all.txt" > "$BASE/list.$i"; done
lane() {
  i="$1"; L="$BASE/l$i"; mkdir -p "$L"
  git -C /repo worktree add -q --detach "$L/repo" HEAD || return
  rsync -a --exclude target /verif/sim/ "$L/sim/"
  sed -i "s#\"/repo/#\"$L/repo/#" "$L/sim/Cargo.toml"
  export CARGO_NET_OFFLINE=true CARGO_BUILD_JOBS=$((16 / LANES))
  (cd "$L/sim" && cargo build --offline -q 2> "$L/build.log") || { echo "lane $i: BUILD-FAILED (clean tree)"; return; }
  while read -r d; do
    n=$(basename "$d")
    p=$(python3 -c "import json; m=json.load(open('/verif/$d/meta.json')); print(m.get('check', m['property']))" 2>/dev/null) || continue
    if ! git -C "$L/repo" apply "/verif/$d/patch.diff" 2>/dev/null; then echo "$n ($p): PATCH-FAILED"; continue; fi
    if (cd "$L/sim" && cargo build --offline -q 2> "$L/build.log"); then
      R="$L/root"; rm -rf "$R"; mkdir -p "$R"; cp /verif/known_findings.json "$R/"; cp -r /verif/corpus "$R/corpus"
      out=$(cd /verif && VERIF_SECS=$SECS VERIF_ROOT="$R" VERIF_WORKERS=$((16 / LANES)) "$L/sim/target/debug/brushsim" check "$p" quick 2>&1)
      if [ -n "$CORPUS" ]; then
        i=0; mkdir -p "/verif/corpus/$p"
        for f in "$R"/replays/*.json; do [ -f "$f" ] || continue; i=$((i+1)); [ $i -le 3 ] && cp "$f" "/verif/corpus/$p/$n-$i.json"; done
      fi
      if echo "$out" | grep -q "^VIOLATION"; then echo "$n ($p): CAUGHT $(echo "$out" | grep -c '^VIOLATION') $(echo "$out" | grep '^VIOLATION' | sed 's/.*class=\([^ ]*\).*/\1/' | sort -u | tr '\n' ' ')";
      else echo "$n ($p): MISSED"; fi
    else echo "$n ($p): BUILD-FAILED"; fi
    git -C "$L/repo" checkout -q -- .
  done < "$BASE/list.$i"
  git -C /repo worktree remove --force "$L/repo"
}
for i in $(seq 1 "$LANES"); do lane "$i" & done
wait
git -C /repo worktree prune
rm -rf "$BASE"
