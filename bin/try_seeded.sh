#!/bin/sh
# usage: bin/try_seeded.sh <seeded dir> <property id> [secs]
# Applies a seeded breaking change to /repo, runs the property's quick check, undoes the change.
D="$1"; ID="$2"; SECS="${3:-30}"
cd /repo || exit 2
if [ -n "$(git status --porcelain --untracked-files=no)" ]; then echo "repo not clean"; exit 2; fi
git apply "$D/patch.diff" || { echo "patch does not apply"; exit 2; }
cd /verif
VERIF_SECS=$SECS VERIF_ROOT=/tmp/vr_seeded bin/check_tmp "$ID" quick > /tmp/seeded_out.txt 2>&1
rc=$?
git -C /repo checkout -- .
grep -E "^(VIOLATION|KNOWN-FINDING|HARNESS-ERROR|check )" /tmp/seeded_out.txt | cut -c1-400
echo "exit=$rc"
