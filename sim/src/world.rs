//! The simulated world: token scheduler, participants, pipes, sinks, stdin, clock,
//! fault plan and event log. Everything nondeterministic the checked properties depend
//! on is decided here from one PRNG.

use std::cell::Cell;
use std::collections::{HashMap, VecDeque};
use std::io;
use std::sync::{Condvar, Mutex, MutexGuard};

use serde::{Deserialize, Serialize};

// ---------------------------------------------------------------------------------------
// PRNG

#[derive(Clone, Debug)]
pub struct Rng(pub u64);

pub fn splitmix(x: u64) -> u64 {
    let mut z = x.wrapping_add(0x9E37_79B9_7F4A_7C15);
    z = (z ^ (z >> 30)).wrapping_mul(0xBF58_476D_1CE4_E5B9);
    z = (z ^ (z >> 27)).wrapping_mul(0x94D0_49BB_1331_11EB);
    z ^ (z >> 31)
}

impl Rng {
    pub fn new(seed: u64) -> Self {
        Self(splitmix(seed ^ 0xA5A5_5A5A_1234_5678))
    }
    pub fn next(&mut self) -> u64 {
        self.0 = self.0.wrapping_add(0x9E37_79B9_7F4A_7C15);
        let mut z = self.0;
        z = (z ^ (z >> 30)).wrapping_mul(0xBF58_476D_1CE4_E5B9);
        z = (z ^ (z >> 27)).wrapping_mul(0x94D0_49BB_1331_11EB);
        z ^ (z >> 31)
    }
    /// uniform in 0..n (n > 0)
    pub fn below(&mut self, n: u64) -> u64 {
        if n <= 1 { 0 } else { self.next() % n }
    }
    pub fn range(&mut self, lo: u64, hi_incl: u64) -> u64 {
        lo + self.below(hi_incl - lo + 1)
    }
    pub fn chance(&mut self, num: u64, den: u64) -> bool {
        self.below(den) < num
    }
    pub fn pick<'a, T>(&mut self, xs: &'a [T]) -> &'a T {
        &xs[self.below(xs.len() as u64) as usize]
    }
    pub fn fork(&mut self) -> Rng {
        Rng(splitmix(self.next()))
    }
}

// ---------------------------------------------------------------------------------------
// Configuration

#[derive(Clone, Debug, Serialize, Deserialize, PartialEq)]
pub enum Strategy {
    /// uniform over runnable participants
    Uniform,
    /// keep the current participant while it can run; otherwise uniform
    RunLong,
    /// keep the current participant with probability p/100, else uniform
    Sticky(u8),
    /// random priorities, `d` priority change points within the first `horizon` decisions
    Pct { d: u8, horizon: u32 },
    /// the k-th created participant (mod live count) runs only when nobody else can
    Starve(u8),
    /// always the lowest-id runnable participant (used for minimised replays)
    LowestId,
    /// always the highest-id runnable participant
    HighestId,
}

#[derive(Clone, Debug, Serialize, Deserialize, PartialEq)]
pub enum ErrKind {
    Epipe,
    Enospc,
    Eio,
    Enoent,
    Eacces,
    Emfile,
    Eintr,
    Eagain,
}

impl ErrKind {
    pub fn to_io(&self) -> io::Error {
        let code = match self {
            ErrKind::Epipe => libc::EPIPE,
            ErrKind::Enospc => libc::ENOSPC,
            ErrKind::Eio => libc::EIO,
            ErrKind::Enoent => libc::ENOENT,
            ErrKind::Eacces => libc::EACCES,
            ErrKind::Emfile => libc::EMFILE,
            ErrKind::Eintr => libc::EINTR,
            ErrKind::Eagain => libc::EAGAIN,
        };
        io::Error::from_raw_os_error(code)
    }
}

/// One planned fault. `at` counts occurrences of the operation from 0.
#[derive(Clone, Debug, Serialize, Deserialize, PartialEq)]
pub enum Fault {
    /// sink (1 = stdout, 2 = stderr) fails every write from the `at`-th on
    SinkFrom { sink: u8, at: u64, err: ErrKind },
    /// the `at`-th open() fails once
    Open { at: u64, err: ErrKind },
    /// the `at`-th pipe() fails once
    Pipe { at: u64, err: ErrKind },
    /// the `at`-th write on a real file fails once
    FileWrite { at: u64, err: ErrKind },
    /// the `at`-th read on a real file fails once
    FileRead { at: u64, err: ErrKind },
    /// the `at`-th read on simulated stdin returns EINTR once (BufRead::read_line retries)
    StdinEintr { at: u64 },
    /// the `at`-th read on simulated stdin fails with EIO (probe only)
    StdinError { at: u64 },
}

#[derive(Clone, Debug, Serialize, Deserialize)]
pub struct SimConfig {
    pub seed: u64,
    pub capacity: usize,
    pub strategy: Strategy,
    /// per mille probability that a pipe read returns fewer bytes than available
    pub short_read_pm: u16,
    /// per mille probability that a decision advances the clock although someone is runnable
    pub clock_advance_pm: u16,
    pub budget: u64,
    pub faults: Vec<Fault>,
    /// stdin content delivery: chunk sizes cycle through this list (empty = all at once)
    pub stdin_chunks: Vec<usize>,
    /// capacity of the BufReader the stdin front-end wraps around simulated stdin
    pub stdin_buf: usize,
    /// explicit schedule to follow before falling back to `strategy`
    pub schedule: Vec<u32>,
    /// number of runtime worker threads available to tasks created with `tokio::spawn`
    /// (None = unlimited). A task keeps its worker while it runs *and while it blocks in
    /// synchronous pipe I/O*; it gives it up while it awaits a join, sleeps or has finished.
    #[serde(default)]
    pub workers: Option<usize>,
}

impl Default for SimConfig {
    fn default() -> Self {
        Self {
            seed: 1,
            capacity: 65536,
            strategy: Strategy::RunLong,
            short_read_pm: 0,
            clock_advance_pm: 0,
            budget: 20_000,
            faults: vec![],
            stdin_chunks: vec![],
            stdin_buf: 8192,
            schedule: vec![],
            workers: None,
        }
    }
}

// ---------------------------------------------------------------------------------------
// State

#[derive(Clone, Debug, PartialEq)]
pub enum St {
    Runnable,
    Running,
    BlockedRead(usize),
    /// (pipe, bytes of free space needed)
    BlockedWrite(usize, usize),
    BlockedJoin(usize),
    Sleeping(u64),
    WaitAll,
    Finished,
}

#[derive(Clone, Debug)]
pub struct Part {
    pub state: St,
    pub kind: &'static str,
    pub spawner: usize,
    pub prio: u64,
    /// consecutive EPIPE results seen by this participant
    pub epipe_run: u32,
    pub epipe_total: u32,
    pub ops: u64,
    /// holds a runtime worker (only meaningful for `async` participants)
    pub has_worker: bool,
}

#[derive(Debug)]
pub struct Pipe {
    pub buf: VecDeque<u8>,
    pub cap: usize,
    pub reader_open: bool,
    pub writer_open: bool,
    pub site: &'static str,
    pub creator: usize,
    pub written: u64,
    pub read: u64,
}

#[derive(Clone, Debug, Serialize, Deserialize, PartialEq)]
pub enum EventKind {
    Probe { tag: String, status: u8, depth: usize, jobs: Vec<usize>, stdin_delivered: usize, extra: Vec<String> },
    SinkWrite { sink: u8, len: usize, ok: bool },
    StdinRead { pos: usize, n: usize },
    Spawn { child: usize, kind: String },
    End { pid: usize },
    Note(String),
}

#[derive(Clone, Debug, Serialize, Deserialize, PartialEq)]
pub struct Event {
    pub seq: u64,
    pub pid: usize,
    pub clock: u64,
    pub kind: EventKind,
}

#[derive(Clone, Debug, Serialize, Deserialize, PartialEq)]
pub enum Abort {
    Deadlock { detail: String, self_owned: bool, main_done: bool, #[serde(default)] worker_starved: bool },
    Budget { detail: String, epipe_spin: bool },
    Panic { detail: String },
}

#[derive(Default, Clone, Debug, Serialize, Deserialize)]
pub struct Stats {
    pub fired: HashMap<String, u64>,
    pub probes: HashMap<String, u64>,
}

impl Stats {
    pub fn fire(&mut self, k: &str) {
        *self.fired.entry(k.to_string()).or_insert(0) += 1;
    }
    pub fn probe(&mut self, k: &str) {
        *self.probes.entry(k.to_string()).or_insert(0) += 1;
    }
    pub fn merge(&mut self, o: &Stats) {
        for (k, v) in &o.fired {
            *self.fired.entry(k.clone()).or_insert(0) += v;
        }
        for (k, v) in &o.probes {
            *self.probes.entry(k.clone()).or_insert(0) += v;
        }
    }
}

pub struct World {
    pub gen_id: u64,
    pub main_done: bool,
    /// set when the main shell `exec`ed a simulated program: its raw wait status
    pub exec_replaced: Option<i32>,
    pub active: bool,
    pub cfg: SimConfig,
    pub rng: Rng,
    /// separate stream for I/O-level choices (short reads, early clock advances) so that an
    /// explicit schedule does not shift them
    pub rng_io: Rng,
    pub parts: Vec<Part>,
    pub current: Option<usize>,
    pub abort: Option<Abort>,
    pub decisions: u64,
    pub clock: u64,
    pub pipes: Vec<Pipe>,
    pub sinks: [Vec<u8>; 3],
    pub sink_writes: [u64; 3],
    pub stdin_data: Vec<u8>,
    pub stdin_pos: usize,
    pub stdin_reads: u64,
    pub stdin_chunk_idx: usize,
    pub stdin_chunk_left: usize,
    pub task_ids: HashMap<tokio::task::Id, usize>,
    pub events: Vec<Event>,
    pub seq: u64,
    pub loghash: u64,
    pub shapehash: u64,
    pub schedule_pos: usize,
    pub recorded: Vec<u32>,
    pub opens: u64,
    pub pipe_calls: u64,
    pub file_writes: u64,
    pub file_reads: u64,
    pub pending_threads: usize,
    pub stats: Stats,
    pub pct_points: Vec<u64>,
    pub last_progress: std::time::Instant,
    pub sim_procs: HashMap<i32, usize>,
    pub children_spawned: u64,
    pub children_reaped: u64,
    /// (last argument, raw wait status) of every simulated process that has exited
    pub proc_exits: Vec<(String, i32)>,
}

impl World {
    fn new() -> Self {
        Self {
            gen_id: 0,
            main_done: false,
            exec_replaced: None,
            active: false,
            cfg: SimConfig::default(),
            rng: Rng::new(0),
            rng_io: Rng::new(0),
            parts: vec![],
            current: None,
            abort: None,
            decisions: 0,
            clock: 0,
            pipes: vec![],
            sinks: [vec![], vec![], vec![]],
            sink_writes: [0; 3],
            stdin_data: vec![],
            stdin_pos: 0,
            stdin_reads: 0,
            stdin_chunk_idx: 0,
            stdin_chunk_left: 0,
            task_ids: HashMap::new(),
            events: vec![],
            seq: 0,
            loghash: 0xcbf2_9ce4_8422_2325,
            shapehash: 0xcbf2_9ce4_8422_2325,
            schedule_pos: 0,
            recorded: vec![],
            opens: 0,
            pipe_calls: 0,
            file_writes: 0,
            file_reads: 0,
            pending_threads: 0,
            stats: Stats::default(),
            pct_points: vec![],
            last_progress: std::time::Instant::now(),
            sim_procs: HashMap::new(),
            children_spawned: 0,
            children_reaped: 0,
            proc_exits: vec![],
        }
    }

    fn hash_mix(h: &mut u64, v: u64) {
        for i in 0..8 {
            *h ^= (v >> (i * 8)) & 0xff;
            *h = h.wrapping_mul(0x0000_0100_0000_01B3);
        }
    }

    pub fn log_op(&mut self, pid: usize, op: u64, res: u64, n: u64) {
        let d = self.decisions;
        Self::hash_mix(&mut self.loghash, d);
        Self::hash_mix(&mut self.loghash, pid as u64);
        Self::hash_mix(&mut self.loghash, op);
        Self::hash_mix(&mut self.loghash, res);
        Self::hash_mix(&mut self.loghash, n);
        // interleaving shape: (participant kind, op kind) only
        let kind = self.parts.get(pid).map_or(0, |p| p.kind.len() as u64);
        Self::hash_mix(&mut self.shapehash, kind * 131 + op);
    }

    pub fn event(&mut self, pid: usize, kind: EventKind) {
        self.seq += 1;
        let ev = Event { seq: self.seq, pid, clock: self.clock, kind };
        self.events.push(ev);
    }

    fn is_runnable(&self, st: &St) -> bool {
        match st {
            St::Runnable | St::Running => true,
            St::BlockedRead(p) => {
                let p = &self.pipes[*p];
                !p.buf.is_empty() || !p.writer_open
            }
            St::BlockedWrite(p, need) => {
                let p = &self.pipes[*p];
                p.cap - p.buf.len() >= *need || !p.reader_open
            }
            St::BlockedJoin(t) => self.parts[*t].state == St::Finished,
            St::Sleeping(until) => self.clock >= *until,
            St::WaitAll => self.parts.iter().filter(|p| p.state != St::WaitAll).all(|p| p.state == St::Finished),
            St::Finished => false,
        }
    }

    fn describe(&self) -> String {
        let mut s = String::new();
        for (i, p) in self.parts.iter().enumerate() {
            s.push_str(&format!("p{i}[{}]={:?} ", p.kind, p.state));
        }
        for (i, p) in self.pipes.iter().enumerate() {
            s.push_str(&format!(
                "pipe{i}[{} cap{} len{} r{} w{} by p{}] ",
                p.site,
                p.cap,
                p.buf.len(),
                p.reader_open as u8,
                p.writer_open as u8,
                p.creator
            ));
        }
        s
    }

    /// Choose who runs next. Called with the lock held, by the token holder.
    fn pick(&mut self, me: usize) {
        self.decisions += 1;
        self.last_progress = std::time::Instant::now();
        if self.abort.is_some() {
            self.current = None;
            return;
        }
        if self.decisions > self.cfg.budget {
            let spin = self.parts.iter().any(|p| p.epipe_run > 50);
            self.abort = Some(Abort::Budget { detail: self.describe(), epipe_spin: spin });
            self.current = None;
            return;
        }
        loop {
            // worker model: an `async` task holds a worker from the moment it runs until it
            // awaits a join / sleeps / finishes
            for i in 0..self.parts.len() {
                if !self.parts[i].has_worker {
                    continue;
                }
                let releases = match self.parts[i].state {
                    St::BlockedJoin(_) | St::Sleeping(_) | St::WaitAll | St::Finished => true,
                    // the command-substitution drain is an asynchronous read in production
                    // (tokio pipe Receiver): the task yields its worker while it waits
                    St::BlockedRead(p) => self.pipes[p].site == "cmdsubst",
                    _ => false,
                };
                if releases {
                    self.parts[i].has_worker = false;
                }
            }
            let free = match self.cfg.workers {
                None => usize::MAX,
                Some(w) => w.saturating_sub(self.parts.iter().filter(|p| p.has_worker).count()),
            };
            let mut runnable: Vec<usize> = (0..self.parts.len())
                .filter(|&i| self.is_runnable(&self.parts[i].state))
                .filter(|&i| self.parts[i].kind != "async" || self.parts[i].has_worker || free > 0)
                .collect();
            let starved = self.cfg.workers.is_some()
                && runnable.is_empty()
                && (0..self.parts.len()).any(|i| self.is_runnable(&self.parts[i].state) && self.parts[i].kind == "async" && !self.parts[i].has_worker);
            let sleepers: Option<u64> = self
                .parts
                .iter()
                .filter_map(|p| if let St::Sleeping(u) = p.state { Some(u) } else { None })
                .filter(|u| *u > self.clock)
                .min();
            if runnable.is_empty() {
                if let Some(t) = sleepers {
                    self.clock = t;
                    continue;
                }
                if self.parts.iter().all(|p| p.state == St::Finished) {
                    self.current = None;
                    return;
                }
                // somebody is blocked and nobody can run
                let self_owned = self.parts.iter().enumerate().any(|(i, p)| {
                    if let St::BlockedWrite(pi, _) = p.state {
                        // the writer created the pipe itself and its reader end is still open:
                        // the inline-stage shape (the consumer has not been started)
                        self.pipes[pi].creator == i && self.pipes[pi].reader_open
                    } else {
                        false
                    }
                });
                self.abort = Some(Abort::Deadlock { detail: self.describe(), self_owned, main_done: self.main_done, worker_starved: starved });
                self.current = None;
                return;
            }
            // optional early clock advance
            if let Some(t) = sleepers {
                if self.cfg.clock_advance_pm > 0
                    && self.rng_io.below(1000) < self.cfg.clock_advance_pm as u64
                {
                    self.clock = t;
                    self.stats.fire("clock_advance_early");
                    continue;
                }
            }
            runnable.sort_unstable();
            let next = if self.schedule_pos < self.cfg.schedule.len() {
                let want = self.cfg.schedule[self.schedule_pos] as usize;
                self.schedule_pos += 1;
                if runnable.contains(&want) {
                    want
                } else {
                    // diverged from the recorded schedule: fall back deterministically
                    self.stats.probe("schedule_diverged");
                    runnable[0]
                }
            } else {
                self.choose(me, &runnable)
            };
            if self.cfg.workers.is_some() && self.parts[next].kind == "async" {
                self.parts[next].has_worker = true;
            }
            self.recorded.push(next as u32);
            self.current = Some(next);
            return;
        }
    }

    fn choose(&mut self, me: usize, runnable: &[usize]) -> usize {
        let me_ok = runnable.contains(&me);
        match self.cfg.strategy.clone() {
            Strategy::Uniform => *self.rng.pick(runnable),
            Strategy::RunLong => {
                if me_ok {
                    me
                } else {
                    *self.rng.pick(runnable)
                }
            }
            Strategy::Sticky(p) => {
                if me_ok && self.rng.below(100) < p as u64 {
                    me
                } else {
                    *self.rng.pick(runnable)
                }
            }
            Strategy::LowestId => runnable[0],
            Strategy::HighestId => *runnable.last().unwrap(),
            Strategy::Starve(k) => {
                let victim = (k as usize) % self.parts.len().max(1);
                let others: Vec<usize> = runnable.iter().copied().filter(|&i| i != victim).collect();
                if others.is_empty() {
                    victim
                } else if others.contains(&me) && self.rng.below(100) < 70 {
                    me
                } else {
                    *self.rng.pick(&others)
                }
            }
            Strategy::Pct { .. } => {
                if self.pct_points.contains(&self.decisions) && me_ok {
                    // demote the running participant below everyone
                    let min = self.parts.iter().map(|p| p.prio).min().unwrap_or(0);
                    self.parts[me].prio = min.saturating_sub(1);
                }
                *runnable.iter().max_by_key(|&&i| (self.parts[i].prio, usize::MAX - i)).unwrap()
            }
        }
    }
}

// ---------------------------------------------------------------------------------------
// Globals

static WORLD: Mutex<Option<World>> = Mutex::new(None);
static CV: Condvar = Condvar::new();
static GEN: std::sync::atomic::AtomicU64 = std::sync::atomic::AtomicU64::new(1);

thread_local! {
    static MY_PID: Cell<Option<usize>> = const { Cell::new(None) };
    static NOPANIC: Cell<bool> = const { Cell::new(false) };
}

pub struct SimAbort;

pub fn my_pid() -> Option<usize> {
    MY_PID.with(|c| c.get())
}
pub fn set_my_pid(p: Option<usize>) {
    MY_PID.with(|c| c.set(p));
}

pub fn lock() -> MutexGuard<'static, Option<World>> {
    WORLD.lock().unwrap_or_else(|e| e.into_inner())
}

pub fn with<R>(f: impl FnOnce(&mut World) -> R) -> R {
    let mut g = lock();
    if g.is_none() {
        *g = Some(World::new());
    }
    f(g.as_mut().unwrap())
}

pub fn is_active() -> bool {
    let g = lock();
    g.as_ref().is_some_and(|w| w.active)
}

/// Start a run: the calling thread becomes participant 0 and holds the token.
pub fn begin_run(cfg: SimConfig, stdin: Vec<u8>) {
    let mut g = lock();
    let mut w = World::new();
    w.rng = Rng::new(cfg.seed);
    w.rng_io = Rng::new(cfg.seed ^ 0x5151_7373_9191_abab);
    w.gen_id = GEN.fetch_add(1, std::sync::atomic::Ordering::SeqCst);
    if let Strategy::Pct { d, horizon } = cfg.strategy {
        for _ in 0..d {
            let p = w.rng.range(1, horizon.max(1) as u64);
            w.pct_points.push(p);
        }
    }
    w.cfg = cfg;
    w.stdin_data = stdin;
    w.active = true;
    let prio = w.rng.next() >> 8;
    w.parts.push(Part { state: St::Running, kind: "main", spawner: 0, prio, epipe_run: 0, epipe_total: 0, ops: 0, has_worker: false });
    w.current = Some(0);
    *g = Some(w);
    drop(g);
    set_my_pid(Some(0));
}

/// End a run: deactivate and hand the world back.
pub fn end_run() -> World {
    let mut g = lock();
    let mut w = g.take().unwrap_or_else(World::new);
    w.active = false;
    *g = Some(World::new());
    drop(g);
    set_my_pid(None);
    CV.notify_all();
    w
}

/// The main shell replaced its process image (`exec`): the run is over, with this wait status.
pub fn exec_replace(raw: i32) -> ! {
    {
        let mut g = lock();
        if let Some(w) = g.as_mut() {
            w.exec_replaced = Some(raw);
            if w.abort.is_none() {
                // every other participant dies with the process
                w.abort = Some(Abort::Panic { detail: "exec".into() });
            }
        }
    }
    CV.notify_all();
    abort_now()
}

fn abort_now() -> ! {
    std::panic::resume_unwind(Box::new(SimAbort));
}

/// Leave the running state for `new_state`, let the scheduler pick, and park until picked.
/// Returns Err if the run has been aborted and the caller is already unwinding.
pub fn switch(me: usize, new_state: St, op: u64, res: u64, n: u64) -> Result<(), ()> {
    let mut g = lock();
    {
        let w = g.as_mut().unwrap();
        if !w.active {
            return Ok(());
        }
        if w.abort.is_some() {
            drop(g);
            if std::thread::panicking() || NOPANIC.with(|c| c.get()) {
                return Err(());
            }
            abort_now();
        }
        w.parts[me].state = new_state;
        w.parts[me].ops += 1;
        w.log_op(me, op, res, n);
        w.pick(me);
    }
    CV.notify_all();
    loop {
        {
            let w = g.as_mut().unwrap();
            if w.abort.is_some() || !w.active {
                drop(g);
                if std::thread::panicking() || NOPANIC.with(|c| c.get()) {
                    return Err(());
                }
                abort_now();
            }
            if w.current == Some(me) {
                w.parts[me].state = St::Running;
                return Ok(());
            }
        }
        g = CV.wait(g).unwrap_or_else(|e| e.into_inner());
    }
}

pub const OP_YIELD: u64 = 1;
pub const OP_PREAD: u64 = 2;
pub const OP_PWRITE: u64 = 3;
pub const OP_SINK: u64 = 4;
pub const OP_STDIN: u64 = 5;
pub const OP_SPAWN: u64 = 6;
pub const OP_END: u64 = 7;
pub const OP_JOIN: u64 = 8;
pub const OP_POLL: u64 = 9;
pub const OP_SLEEP: u64 = 10;
pub const OP_FILE: u64 = 11;
pub const OP_OPEN: u64 = 12;
pub const OP_PROBE: u64 = 13;
pub const OP_WAITALL: u64 = 14;

/// A plain scheduling point for the calling participant.
pub fn yield_point(op: u64, res: u64, n: u64) {
    if let Some(me) = my_pid() {
        let _ = switch(me, St::Runnable, op, res, n);
    }
}

// --- tasks ------------------------------------------------------------------------------

pub fn task_spawn(kind: &'static str) -> u64 {
    let me = my_pid().unwrap_or(0);
    let mut g = lock();
    let w = g.as_mut().unwrap();
    let prio = w.rng.next() >> 8;
    let id = w.parts.len();
    w.parts.push(Part { state: St::Runnable, kind, spawner: me, prio, epipe_run: 0, epipe_total: 0, ops: 0, has_worker: false });
    w.pending_threads += 1;
    w.event(me, EventKind::Spawn { child: id, kind: kind.to_string() });
    id as u64
}

pub fn task_spawned(tok: u64, id: tokio::task::Id) {
    {
        let mut g = lock();
        let w = g.as_mut().unwrap();
        w.task_ids.insert(id, tok as usize);
    }
    // spawning is a scheduling point: the child may start before the parent continues
    yield_point(OP_SPAWN, tok, 0);
}

pub fn task_begin(tok: u64) {
    let me = tok as usize;
    set_my_pid(Some(me));
    let mut g = lock();
    loop {
        {
            let w = g.as_mut().unwrap();
            if w.abort.is_some() || !w.active {
                w.pending_threads = w.pending_threads.saturating_sub(1);
                if let Some(p) = w.parts.get_mut(me) {
                    p.state = St::Finished;
                }
                drop(g);
                CV.notify_all();
                set_my_pid(None);
                abort_now();
            }
            if w.current == Some(me) {
                w.parts[me].state = St::Running;
                return;
            }
        }
        g = CV.wait(g).unwrap_or_else(|e| e.into_inner());
    }
}

pub fn task_end(tok: u64) {
    let me = tok as usize;
    let mut g = lock();
    if let Some(w) = g.as_mut() {
        if me < w.parts.len() {
            w.parts[me].state = St::Finished;
            w.event(me, EventKind::End { pid: me });
            if w.active && w.abort.is_none() && w.current == Some(me) {
                w.log_op(me, OP_END, 0, 0);
                w.pick(me);
            }
        }
        w.pending_threads = w.pending_threads.saturating_sub(1);
    }
    drop(g);
    set_my_pid(None);
    CV.notify_all();
}

pub fn before_join(id: tokio::task::Id, is_finished: &dyn Fn() -> bool) {
    let Some(me) = my_pid() else { return };
    let target = {
        let g = lock();
        g.as_ref().and_then(|w| w.task_ids.get(&id).copied())
    };
    let Some(t) = target else { return };
    let _ = switch(me, St::BlockedJoin(t), OP_JOIN, t as u64, 0);
    spin_until(is_finished);
}

pub fn before_poll(id: tokio::task::Id, is_finished: &dyn Fn() -> bool) {
    let Some(me) = my_pid() else { return };
    let _ = switch(me, St::Runnable, OP_POLL, 0, 0);
    let done = {
        let g = lock();
        g.as_ref().is_some_and(|w| w.task_ids.get(&id).is_some_and(|t| w.parts[*t].state == St::Finished))
    };
    if done {
        spin_until(is_finished);
    }
}

fn spin_until(f: &dyn Fn() -> bool) {
    let start = std::time::Instant::now();
    let mut n = 0u32;
    while !f() {
        n += 1;
        if n > 200 {
            std::thread::sleep(std::time::Duration::from_micros(20));
        } else {
            std::thread::yield_now();
        }
        if start.elapsed().as_secs() > 15 {
            break;
        }
    }
}

/// Participant 0 waits until every other participant has finished. Returns false when the
/// run was aborted while waiting (never unwinds).
pub fn wait_all() -> bool {
    if let Some(me) = my_pid() {
        NOPANIC.with(|c| c.set(true));
        let r = switch(me, St::WaitAll, OP_WAITALL, 0, 0);
        NOPANIC.with(|c| c.set(false));
        return r.is_ok();
    }
    true
}

/// Like `wait_all`, for use from inside a run (unwinds on abort like every other operation).
pub fn wait_all_quiet() {
    if let Some(me) = my_pid() {
        let _ = switch(me, St::WaitAll, OP_WAITALL, 1, 0);
    }
}

pub fn notify() {
    CV.notify_all();
}

pub fn sim_sleep(d: u64) {
    if let Some(me) = my_pid() {
        let until = with(|w| w.clock + d);
        let _ = switch(me, St::Sleeping(until), OP_SLEEP, d, 0);
    }
}

/// Wait (real time) until all spawned threads have left the simulation.
pub fn wait_threads_gone(timeout_s: u64) -> bool {
    let start = std::time::Instant::now();
    let mut g = lock();
    loop {
        if g.as_ref().is_none_or(|w| w.pending_threads == 0) {
            return true;
        }
        if start.elapsed().as_secs() >= timeout_s {
            return false;
        }
        let (ng, _) = CV
            .wait_timeout(g, std::time::Duration::from_millis(50))
            .unwrap_or_else(|e| e.into_inner());
        g = ng;
    }
}

// --- pipes ------------------------------------------------------------------------------

pub fn pipe_create(site: &'static str) -> io::Result<(usize, u64)> {
    let me = my_pid().unwrap_or(0);
    let mut g = lock();
    let w = g.as_mut().unwrap();
    let k = w.pipe_calls;
    w.pipe_calls += 1;
    let mut fail = None;
    for f in &w.cfg.faults {
        if let Fault::Pipe { at, err } = f {
            if *at == k {
                fail = Some(err.clone());
            }
        }
    }
    if let Some(err) = fail {
        w.stats.fire("pipe_create_fail");
        return Err(err.to_io());
    }
    let cap = w.cfg.capacity.max(1);
    w.pipes.push(Pipe {
        buf: VecDeque::new(),
        cap,
        reader_open: true,
        writer_open: true,
        site,
        creator: me,
        written: 0,
        read: 0,
    });
    Ok((w.pipes.len() - 1, w.gen_id))
}

pub fn pipe_close(pipe: usize, writer: bool, gen_id: u64) {
    let mut g = lock();
    if let Some(w) = g.as_mut() {
        if w.gen_id == gen_id {
            if let Some(p) = w.pipes.get_mut(pipe) {
                if writer {
                    p.writer_open = false;
                } else {
                    p.reader_open = false;
                }
            }
        }
    }
    drop(g);
    // not a scheduling point; parked waiters re-evaluate at the next decision
}

fn cap_of(pipe: usize) -> usize {
    with(|w| w.pipes[pipe].cap)
}

pub fn pipe_read(pipe: usize, buf: &mut [u8]) -> io::Result<usize> {
    let Some(me) = my_pid() else {
        return Err(io::Error::other("sim pipe used outside the simulation"));
    };
    if buf.is_empty() {
        return Ok(0);
    }
    if switch(me, St::Runnable, OP_PREAD, pipe as u64, buf.len() as u64).is_err() {
        return Err(io::Error::other("simulation aborted"));
    }
    loop {
        {
            let mut g = lock();
            let w = g.as_mut().unwrap();
            let avail = w.pipes[pipe].buf.len();
            if avail > 0 {
                let mut n = avail.min(buf.len());
                if n > 1 && w.cfg.short_read_pm > 0 && w.rng_io.below(1000) < w.cfg.short_read_pm as u64 {
                    n = w.rng_io.range(1, n as u64 - 1) as usize;
                    w.stats.fire("short_read");
                }
                let p = &mut w.pipes[pipe];
                for b in buf.iter_mut().take(n) {
                    *b = p.buf.pop_front().unwrap();
                }
                p.read += n as u64;
                return Ok(n);
            }
            if !w.pipes[pipe].writer_open {
                w.stats.probe("eof_after_last_writer_closed");
                return Ok(0);
            }
            w.stats.probe("reader_blocked_on_empty_pipe");
        }
        if switch(me, St::BlockedRead(pipe), OP_PREAD, pipe as u64, 0).is_err() {
            return Err(io::Error::other("simulation aborted"));
        }
    }
}

pub fn pipe_write(pipe: usize, data: &[u8]) -> io::Result<usize> {
    let Some(me) = my_pid() else {
        return Err(io::Error::other("sim pipe used outside the simulation"));
    };
    if data.is_empty() {
        return Ok(0);
    }
    if switch(me, St::Runnable, OP_PWRITE, pipe as u64, data.len() as u64).is_err() {
        return Err(io::Error::other("simulation aborted"));
    }
    let mut done = 0usize;
    loop {
        {
            let mut g = lock();
            let w = g.as_mut().unwrap();
            if !w.pipes[pipe].reader_open {
                if done > 0 {
                    return Ok(done);
                }
                w.stats.fire("epipe");
                w.parts[me].epipe_run += 1;
                w.parts[me].epipe_total += 1;
                return Err(ErrKind::Epipe.to_io());
            }
            w.parts[me].epipe_run = 0;
            let cap = w.pipes[pipe].cap;
            let atomic = data.len() <= cap.min(4096);
            let free = cap - w.pipes[pipe].buf.len();
            if atomic {
                if free >= data.len() {
                    let p = &mut w.pipes[pipe];
                    p.buf.extend(data.iter().copied());
                    p.written += data.len() as u64;
                    return Ok(data.len());
                }
            } else if free > 0 {
                let n = free.min(data.len() - done);
                let p = &mut w.pipes[pipe];
                p.buf.extend(data[done..done + n].iter().copied());
                p.written += n as u64;
                done += n;
                if done == data.len() {
                    return Ok(done);
                }
            }
            w.stats.probe("writer_blocked_on_full_pipe");
        }
        let need = if data.len() <= cap_of(pipe).min(4096) { data.len() } else { 1 };
        if switch(me, St::BlockedWrite(pipe, need), OP_PWRITE, pipe as u64, 0).is_err() {
            return Err(io::Error::other("simulation aborted"));
        }
    }
}

// --- sinks and stdin --------------------------------------------------------------------

pub fn sink_write(sink: u8, data: &[u8]) -> io::Result<usize> {
    let me = my_pid();
    if let Some(me) = me {
        if switch(me, St::Runnable, OP_SINK, sink as u64, data.len() as u64).is_err() {
            return Err(io::Error::other("simulation aborted"));
        }
    }
    let mut g = lock();
    let w = g.as_mut().unwrap();
    let k = w.sink_writes[sink as usize];
    w.sink_writes[sink as usize] += 1;
    let mut fail = None;
    for f in &w.cfg.faults {
        if let Fault::SinkFrom { sink: s, at, err } = f {
            if *s == sink && k >= *at {
                fail = Some(err.clone());
            }
        }
    }
    let pid = me.unwrap_or(0);
    if let Some(err) = fail {
        w.stats.fire(&format!("sink{}_{:?}", sink, err).to_lowercase());
        w.event(pid, EventKind::SinkWrite { sink, len: data.len(), ok: false });
        if err == ErrKind::Epipe {
            w.parts[pid].epipe_run += 1;
        }
        return Err(err.to_io());
    }
    w.sinks[sink as usize].extend_from_slice(data);
    w.event(pid, EventKind::SinkWrite { sink, len: data.len(), ok: true });
    Ok(data.len())
}

pub fn stdin_read(buf: &mut [u8]) -> io::Result<usize> {
    let me = my_pid();
    if let Some(me) = me {
        if switch(me, St::Runnable, OP_STDIN, 0, buf.len() as u64).is_err() {
            return Err(io::Error::other("simulation aborted"));
        }
    }
    let mut g = lock();
    let w = g.as_mut().unwrap();
    let k = w.stdin_reads;
    w.stdin_reads += 1;
    for f in w.cfg.faults.clone() {
        match f {
            Fault::StdinEintr { at } if at == k => {
                w.stats.fire("stdin_eintr");
                return Err(ErrKind::Eintr.to_io());
            }
            Fault::StdinError { at } if at == k => {
                w.stats.fire("stdin_eio");
                return Err(ErrKind::Eio.to_io());
            }
            _ => {}
        }
    }
    let remaining = w.stdin_data.len() - w.stdin_pos;
    if remaining == 0 || buf.is_empty() {
        let pos = w.stdin_pos;
        w.event(me.unwrap_or(0), EventKind::StdinRead { pos, n: 0 });
        return Ok(0);
    }
    if w.stdin_chunk_left == 0 {
        if w.cfg.stdin_chunks.is_empty() {
            w.stdin_chunk_left = remaining;
        } else {
            let i = w.stdin_chunk_idx % w.cfg.stdin_chunks.len();
            w.stdin_chunk_left = w.cfg.stdin_chunks[i].max(1);
            w.stdin_chunk_idx += 1;
        }
    }
    let n = remaining.min(buf.len()).min(w.stdin_chunk_left);
    let pos = w.stdin_pos;
    buf[..n].copy_from_slice(&w.stdin_data[pos..pos + n]);
    w.stdin_pos += n;
    w.stdin_chunk_left -= n;
    w.event(me.unwrap_or(0), EventKind::StdinRead { pos, n });
    Ok(n)
}

// --- real file / open points --------------------------------------------------------------

pub fn io_point(kind: &'static str, is_write: bool, len: usize) -> Option<io::Error> {
    let me = my_pid()?;
    if switch(me, St::Runnable, OP_FILE, is_write as u64, len as u64).is_err() {
        return Some(io::Error::other("simulation aborted"));
    }
    if !is_write && kind == "file" {
        let mut g = lock();
        let w = g.as_mut().unwrap();
        let k = w.file_reads;
        w.file_reads += 1;
        for f in &w.cfg.faults {
            if let Fault::FileRead { at, err } = f {
                if *at == k {
                    let e = err.to_io();
                    w.stats.fire("file_read_fail");
                    return Some(e);
                }
            }
        }
    }
    if is_write && kind == "file" {
        let mut g = lock();
        let w = g.as_mut().unwrap();
        let k = w.file_writes;
        w.file_writes += 1;
        for f in &w.cfg.faults {
            if let Fault::FileWrite { at, err } = f {
                if *at == k {
                    let e = err.to_io();
                    w.stats.fire("file_write_fail");
                    return Some(e);
                }
            }
        }
    }
    None
}

pub fn open_point(_path: &std::path::Path) -> Option<io::Error> {
    let me = my_pid()?;
    if switch(me, St::Runnable, OP_OPEN, 0, 0).is_err() {
        return Some(io::Error::other("simulation aborted"));
    }
    let mut g = lock();
    let w = g.as_mut().unwrap();
    let k = w.opens;
    w.opens += 1;
    for f in &w.cfg.faults {
        if let Fault::Open { at, err } = f {
            if *at == k {
                let e = err.to_io();
                w.stats.fire("open_fail");
                return Some(e);
            }
        }
    }
    None
}

// --- simulated external processes ---------------------------------------------------------

pub fn proc_register(pid: i32, participant: usize) {
    with(|w| {
        w.sim_procs.insert(pid, participant);
        w.children_spawned += 1;
    });
}

pub fn proc_reaped(gen_id: u64) {
    let mut g = lock();
    if let Some(w) = g.as_mut() {
        if w.gen_id == gen_id {
            w.children_reaped += 1;
        }
    }
}

pub fn proc_exited(tag: String, raw: i32) {
    with(|w| w.proc_exits.push((tag, raw)));
}

pub fn current_gen() -> u64 {
    with(|w| w.gen_id)
}

pub fn before_process_wait(pid: i32) {
    let Some(me) = my_pid() else { return };
    let target = with(|w| w.sim_procs.get(&pid).copied());
    if let Some(t) = target {
        let _ = switch(me, St::BlockedJoin(t), OP_JOIN, t as u64, 1);
    }
}

pub fn before_process_poll(_pid: i32) {
    if let Some(me) = my_pid() {
        let _ = switch(me, St::Runnable, OP_POLL, 0, 1);
    }
}

pub fn probe_event(tag: String, status: u8, depth: usize, jobs: Vec<usize>, extra: Vec<String>) {
    let me = my_pid().unwrap_or(0);
    let mut g = lock();
    if let Some(w) = g.as_mut() {
        let d = w.stdin_pos;
        w.event(me, EventKind::Probe { tag, status, depth, jobs, stdin_delivered: d, extra });
    }
}

pub fn note(s: String) {
    let me = my_pid().unwrap_or(0);
    let mut g = lock();
    if let Some(w) = g.as_mut() {
        w.event(me, EventKind::Note(s));
    }
}

pub fn live_pipe_ends() -> usize {
    let g = lock();
    g.as_ref().map_or(0, |w| w.pipes.iter().map(|p| p.reader_open as usize + p.writer_open as usize).sum())
}

pub fn live_participants() -> usize {
    let g = lock();
    g.as_ref().map_or(0, |w| w.parts.iter().skip(1).filter(|p| p.state != St::Finished).count())
}
