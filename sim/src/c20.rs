//! C20 — command history is saved once, in order, and reloads as saved.
//!
//! Sessions are real `Shell`s with history enabled on one history file; operation sequences
//! (interleaved across up to three sessions, with restarts where only the file survives) are
//! checked operation by operation against an executable model of the file and of every
//! session.

use std::path::PathBuf;

use serde::{Deserialize, Serialize};
use serde_json::{Value, json};

use crate::check::{Check, Tier, Verdict, Violation};
use crate::runner::SimShell;
use crate::world::{self, Rng, SimConfig, Strategy};

#[derive(Clone, Debug, Serialize, Deserialize, PartialEq)]
pub enum Op {
    /// Shell::add_to_history(CMDS[k])  (what the interactive loop does)
    Add(usize),
    /// `history -s WORDS[k]`
    AddS(usize),
    /// a line accepted by reedline in an interactive session: the adapter's `save(item)` (as
    /// reedline's engine calls it), then Shell::add_to_history (as the interactive loop does)
    RlAdd(usize),
    /// the adapter's `sync()`
    RlSync,
    /// Shell::save_history()  (what the interactive loop does at exit)
    Save,
    /// `history -a`
    SaveA,
    /// start one more session on the same file (at most three alive)
    New,
    /// end the current session without saving; if it was the only one, restart
    Drop,
    /// end the current session the way an interactive shell ends: save, then drop; restart if
    /// it was the only one
    Exit,
    /// make the next session the current one
    Next,
    /// `history -d OFFSET`
    Del(i64),
    /// `history -c`
    Clear,
    /// toggle HISTTIMEFORMAT in the current session
    ToggleTs,
    /// the current session and the next one save (append) at the same time: two participants
    /// under the seeded scheduler, with a scheduling point at every write call on the file
    RaceSave,
}

pub const CMDS: &[&str] = &["echo a", "  ls -l  ", "x", "echo a", "\tpwd", "echo '# not a comment'", "   "];
pub const WORDS: &[&str] = &["alpha", "beta gamma", "alpha"];

#[derive(Clone, Debug, Serialize, Deserialize)]
pub struct Case {
    pub class: String,
    pub ops: Vec<Op>,
    /// initial file content (lines)
    pub initial: Vec<String>,
    /// seed of the schedules of `RaceSave` operations
    #[serde(default)]
    pub race_seed: u64,
}

// ---------------------------------------------------------------------------------------
// model

#[derive(Clone, Debug, PartialEq)]
struct MItem {
    cmd: String,
    ts: Option<i64>,
    dirty: bool,
}

#[derive(Clone, Debug)]
struct MSession {
    items: Vec<MItem>,
    ts_enabled: bool,
}

fn model_import(file: &[String]) -> Vec<MItem> {
    let mut items = vec![];
    let mut pending: Option<i64> = None;
    for line in file {
        if let Some(c) = line.strip_prefix('#') {
            pending = c.trim().parse::<i64>().ok();
            continue;
        }
        items.push(MItem { cmd: line.clone(), ts: pending.take(), dirty: false });
    }
    items
}

fn model_save(s: &mut MSession, file: &mut Vec<String>) {
    for it in &mut s.items {
        if !it.dirty {
            continue;
        }
        if s.ts_enabled {
            if let Some(ts) = it.ts {
                file.push(format!("#{ts}"));
            }
        }
        file.push(it.cmd.clone());
        it.dirty = false;
    }
}

// ---------------------------------------------------------------------------------------
// real sessions

thread_local! {
    static RT: tokio::runtime::Runtime = tokio::runtime::Builder::new_current_thread().enable_all().build().expect("runtime");
}

struct Session {
    shell: std::sync::Arc<tokio::sync::Mutex<SimShell>>,
}

impl Session {
    fn sh(&self) -> tokio::sync::MutexGuard<'_, SimShell> {
        self.shell.try_lock().expect("session shell is never locked across operations")
    }
}

fn new_session(histfile: &PathBuf, dir: &PathBuf) -> Result<Session, String> {
    use brush_builtins::ShellBuilderExt as _;
    let mut fds = std::collections::HashMap::new();
    for fd in 0..3 {
        fds.insert(fd, brush_core::openfiles::null().map_err(|e| e.to_string())?);
    }
    let shell = RT.with(|rt| {
        rt.block_on(async {
            brush_core::Shell::builder()
                .default_builtins(brush_builtins::BuiltinSet::BashMode)
                .fds(fds)
                .working_dir(dir.clone())
                .do_not_inherit_env(true)
                .profile(brush_core::ProfileLoadBehavior::Skip)
                .rc(brush_core::RcLoadBehavior::Skip)
                .interactive(true)
                .var("HISTFILE", brush_core::ShellVariable::new(histfile.to_string_lossy().to_string()))
                .build()
                .await
        })
    });
    Ok(Session { shell: std::sync::Arc::new(tokio::sync::Mutex::new(shell.map_err(|e| e.to_string())?)) })
}

fn run(s: &mut Session, cmd: &str) -> Result<u8, String> {
    let mut guard = s.sh();
    let params = guard.default_exec_params();
    let si = brush_core::SourceInfo::from("c20");
    let shell: &mut SimShell = &mut guard;
    RT.with(|rt| rt.block_on(async { shell.run_string(cmd.to_string(), &si, &params).await }))
        .map(|r| u8::from(r.exit_code))
        .map_err(|e| e.to_string())
}

fn session_items(s: &Session) -> Vec<(String, Option<i64>)> {
    s.sh().history().map(|h| h.iter().map(|i| (i.command_line.clone(), i.timestamp.map(|t| t.timestamp()))).collect()).unwrap_or_default()
}

fn read_file(p: &PathBuf) -> Vec<String> {
    match std::fs::read(p) {
        Ok(b) => {
            let s = String::from_utf8_lossy(&b).to_string();
            s.split_terminator('\n').map(String::from).collect()
        }
        Err(_) => vec![],
    }
}

// ---------------------------------------------------------------------------------------

pub struct C20;

fn fnv(s: &str) -> u64 {
    let mut h = 0xcbf2_9ce4_8422_2325u64;
    for b in s.bytes() {
        h ^= b as u64;
        h = h.wrapping_mul(0x0000_0100_0000_01B3);
    }
    h
}

fn viol(class: &str, detail: String) -> Violation {
    Violation { class: class.to_string(), detail, known_shape: None }
}

static DIRN: std::sync::atomic::AtomicU64 = std::sync::atomic::AtomicU64::new(0);

pub fn judge(case: &Case) -> Verdict {
    let mut v = Verdict::default();
    v.class_name = case.class.clone();
    v.case_key = fnv(&format!("{:?}|{:?}", case.ops, case.initial));
    v.nontrivial = case.ops.iter().any(|o| matches!(o, Op::Save | Op::SaveA | Op::RlSync | Op::Exit)) && case.ops.iter().any(|o| matches!(o, Op::Add(_) | Op::RlAdd(_) | Op::AddS(_)));
    v.runs = 1;

    let n = DIRN.fetch_add(1, std::sync::atomic::Ordering::SeqCst) % 4;
    let dir = crate::runner::scratch_root().join(format!("h{n}"));
    let _ = std::fs::remove_dir_all(&dir);
    if std::fs::create_dir_all(&dir).is_err() {
        v.harness_error = Some("cannot create scratch dir".into());
        return v;
    }
    let histfile = dir.join("histfile");
    let mut file_model: Vec<String> = case.initial.clone();
    if !case.initial.is_empty() {
        let mut text = case.initial.join("\n");
        text.push('\n');
        if std::fs::write(&histfile, text).is_err() {
            v.harness_error = Some("cannot write history file".into());
            return v;
        }
    }

    let mk = |v: &mut Verdict| -> Option<Session> {
        match new_session(&histfile, &dir) {
            Ok(s) => Some(s),
            Err(e) => {
                v.harness_error = Some(format!("session: {e}"));
                None
            }
        }
    };
    let mut sessions: Vec<Session> = vec![];
    let mut models: Vec<MSession> = vec![];
    let Some(s0) = mk(&mut v) else { return v };
    sessions.push(s0);
    models.push(MSession { items: model_import(&file_model), ts_enabled: false });
    let mut cur = 0usize;
    let describe = |ops: &[Op], k: usize| format!("after op #{k} {:?} of {:?} (initial file {:?})", ops[k], ops, case.initial);

    // a freshly started session must reload exactly what the file holds
    let check_reload = |s: &Session, m: &MSession, what: &str| -> Option<Violation> {
        let got = session_items(s);
        let want: Vec<(String, Option<i64>)> = m.items.iter().map(|i| (i.cmd.clone(), i.ts)).collect();
        if got != want {
            return Some(viol("C20/reload-differs", format!("{what}: a new session loaded {got:?}, the file holds {want:?}")));
        }
        None
    };
    if let Some(x) = check_reload(&sessions[0], &models[0], "at start") {
        v.violation = Some(x);
        return v;
    }

    for (k, op) in case.ops.iter().enumerate() {
        match op {
            Op::Add(i) => {
                let c = CMDS[*i % CMDS.len()];
                if let Err(e) = sessions[cur].sh().add_to_history(c) {
                    v.violation = Some(viol("C20/op-failed", format!("{}: {e}", describe(&case.ops, k))));
                    return v;
                }
                let t = c.trim();
                if !t.is_empty() {
                    // the timestamp is read back from the shell, never predicted
                    let ts = session_items(&sessions[cur]).last().and_then(|x| x.1);
                    models[cur].items.push(MItem { cmd: t.to_string(), ts, dirty: true });
                }
            }
            Op::RlAdd(i) => {
                let c = CMDS[*i % CMDS.len()];
                let r = RT.with(|rt| {
                    use reedline::History as _;
                    let _g = rt.enter();
                    let mut rl = brush_interactive::verif_reedline_history(&sessions[cur].shell);
                    rl.save(reedline::HistoryItem::from_command_line(c.trim_end_matches('\n'))).map(|_| ()).map_err(|e| format!("{e:?}"))
                });
                let r = r.and_then(|()| sessions[cur].sh().add_to_history(c).map_err(|e| e.to_string()));
                if let Err(e) = r {
                    v.violation = Some(viol("C20/op-failed", format!("{}: {e}", describe(&case.ops, k))));
                    return v;
                }
                let t = c.trim();
                if !t.is_empty() {
                    let ts = session_items(&sessions[cur]).last().and_then(|x| x.1);
                    models[cur].items.push(MItem { cmd: t.to_string(), ts, dirty: true });
                }
            }
            Op::RlSync => {
                let r = RT.with(|rt| {
                    use reedline::History as _;
                    let _g = rt.enter();
                    let mut rl = brush_interactive::verif_reedline_history(&sessions[cur].shell);
                    rl.sync().map_err(|e| e.to_string())
                });
                if let Err(e) = r {
                    v.violation = Some(viol("C20/op-failed", format!("{}: {e}", describe(&case.ops, k))));
                    return v;
                }
                model_save(&mut models[cur], &mut file_model);
            }
            Op::AddS(i) => {
                let w = WORDS[*i % WORDS.len()];
                if let Err(e) = run(&mut sessions[cur], &format!("history -s {w}")) {
                    v.violation = Some(viol("C20/op-failed", format!("{}: {e}", describe(&case.ops, k))));
                    return v;
                }
                let ts = session_items(&sessions[cur]).last().and_then(|x| x.1);
                models[cur].items.push(MItem { cmd: w.to_string(), ts, dirty: true });
            }
            Op::Save => {
                if let Err(e) = sessions[cur].sh().save_history() {
                    v.violation = Some(viol("C20/op-failed", format!("{}: {e}", describe(&case.ops, k))));
                    return v;
                }
                model_save(&mut models[cur], &mut file_model);
            }
            Op::SaveA => {
                if let Err(e) = run(&mut sessions[cur], "history -a") {
                    v.violation = Some(viol("C20/op-failed", format!("{}: {e}", describe(&case.ops, k))));
                    return v;
                }
                model_save(&mut models[cur], &mut file_model);
            }
            Op::New => {
                if sessions.len() < 3 {
                    let Some(s) = mk(&mut v) else { return v };
                    sessions.push(s);
                    models.push(MSession { items: model_import(&file_model), ts_enabled: false });
                    cur = sessions.len() - 1;
                    if let Some(x) = check_reload(&sessions[cur], &models[cur], &describe(&case.ops, k)) {
                        v.violation = Some(x);
                        return v;
                    }
                    v.stats.fire("restart_or_new_session");
                }
            }
            Op::Drop | Op::Exit => {
                if *op == Op::Exit {
                    if let Err(e) = sessions[cur].sh().save_history() {
                        v.violation = Some(viol("C20/op-failed", format!("{}: {e}", describe(&case.ops, k))));
                        return v;
                    }
                    model_save(&mut models[cur], &mut file_model);
                } else {
                    v.stats.fire("session_dropped_without_saving");
                }
                sessions.remove(cur);
                models.remove(cur);
                if sessions.is_empty() {
                    let Some(s) = mk(&mut v) else { return v };
                    sessions.push(s);
                    models.push(MSession { items: model_import(&file_model), ts_enabled: false });
                    if let Some(x) = check_reload(&sessions[0], &models[0], &describe(&case.ops, k)) {
                        v.violation = Some(x);
                        return v;
                    }
                    v.stats.fire("restart_or_new_session");
                }
                cur = 0;
            }
            Op::Next => {
                cur = (cur + 1) % sessions.len();
            }
            Op::RaceSave => {
                if sessions.len() >= 2 {
                    let a = cur;
                    let b = (cur + 1) % sessions.len();
                    // what each session is about to append, as (command, timestamp written)
                    let pending = |m: &MSession| -> Vec<(String, Option<i64>)> {
                        m.items.iter().filter(|i| i.dirty).map(|i| (i.cmd.clone(), if m.ts_enabled { i.ts } else { None })).collect()
                    };
                    let (exp_a, exp_b) = (pending(&models[a]), pending(&models[b]));
                    let before = read_file(&histfile);
                    if before != file_model {
                        v.harness_error = Some("file and model differ before a race".into());
                        return v;
                    }
                    let mut cfg = SimConfig::default();
                    cfg.seed = case.race_seed ^ (k as u64).wrapping_mul(0x9e37_79b9_7f4a_7c15);
                    cfg.strategy = Strategy::Uniform;
                    cfg.budget = 5_000;
                    world::begin_run(cfg, vec![]);
                    let mut handles = vec![];
                    for sh in [sessions[a].shell.clone(), sessions[b].shell.clone()] {
                        let tok = world::task_spawn("session");
                        handles.push(std::thread::spawn(move || {
                            world::task_begin(tok);
                            struct End(u64);
                            impl Drop for End {
                                fn drop(&mut self) {
                                    world::task_end(self.0);
                                }
                            }
                            let _end = End(tok);
                            sh.blocking_lock().save_history().map_err(|e| e.to_string())
                        }));
                    }
                    world::wait_all();
                    let w = world::end_run();
                    v.decisions += w.decisions;
                    v.shapes.push(w.shapehash);
                    let mut failed = None;
                    for h in handles {
                        match h.join() {
                            Ok(Ok(())) => {}
                            Ok(Err(e)) => failed = Some(e),
                            Err(_) => failed = Some("a saving session panicked".to_string()),
                        }
                    }
                    if let Some(e) = failed {
                        v.violation = Some(viol("C20/op-failed", format!("{}: {e}", describe(&case.ops, k))));
                        return v;
                    }
                    v.stats.fire("concurrent_saves");
                    let after = read_file(&histfile);
                    let ok_prefix = after.len() >= before.len() && after[..before.len()] == before[..];
                    let tail: Vec<String> = if ok_prefix { after[before.len()..].to_vec() } else { vec![] };
                    let got: Vec<(String, Option<i64>)> = model_import(&tail).into_iter().map(|i| (i.cmd, i.ts)).collect();
                    let lines_want = exp_a.iter().chain(exp_b.iter()).map(|(_, t)| 1 + usize::from(t.is_some())).sum::<usize>();
                    // an order-preserving merge of the two sequences?
                    fn merge_ok(g: &[(String, Option<i64>)], a: &[(String, Option<i64>)], b: &[(String, Option<i64>)]) -> bool {
                        match g.split_first() {
                            None => a.is_empty() && b.is_empty(),
                            Some((x, rest)) => (a.first() == Some(x) && merge_ok(rest, &a[1..], b)) || (b.first() == Some(x) && merge_ok(rest, a, &b[1..])),
                        }
                    }
                    if !ok_prefix || tail.len() != lines_want || !merge_ok(&got, &exp_a, &exp_b) {
                        v.violation = Some(viol(
                            "C20/race/file-corrupted",
                            format!("{}: two sessions appended {exp_a:?} and {exp_b:?} at the same time; the file gained {tail:?} (every command must appear once, whole, in its session's order, with its timestamp)", describe(&case.ops, k)),
                        ));
                        return v;
                    }
                    file_model = after;
                    for x in [a, b] {
                        for it in &mut models[x].items {
                            it.dirty = false;
                        }
                    }
                }
            }
            Op::Del(off) => {
                let _ = run(&mut sessions[cur], &format!("history -d {off}"));
                let n = models[cur].items.len() as i64;
                let idx = if *off > 0 { *off - 1 } else if *off < 0 { n + *off } else { -1 };
                if idx >= 0 && idx < n {
                    models[cur].items.remove(idx as usize);
                }
            }
            Op::Clear => {
                let _ = run(&mut sessions[cur], "history -c");
                models[cur].items.clear();
            }
            Op::ToggleTs => {
                let cmd = if models[cur].ts_enabled { "unset HISTTIMEFORMAT" } else { "HISTTIMEFORMAT='%F %T '" };
                let _ = run(&mut sessions[cur], cmd);
                models[cur].ts_enabled = !models[cur].ts_enabled;
            }
        }
        // after every operation: the file is exactly what the model says
        let file_now = read_file(&histfile);
        if file_now != file_model {
            let class = if file_now.len() > file_model.len() {
                "C20/file/extra-lines"
            } else if file_now.len() < file_model.len() {
                "C20/file/missing-lines"
            } else {
                "C20/file/content-differs"
            };
            v.violation = Some(viol(class, format!("{}: history file holds {file_now:?}, model {file_model:?}", describe(&case.ops, k))));
            return v;
        }
        // and every live session holds what the model says
        for (si, (s, m)) in sessions.iter().zip(models.iter()).enumerate() {
            let got = session_items(s);
            let want: Vec<(String, Option<i64>)> = m.items.iter().map(|i| (i.cmd.clone(), i.ts)).collect();
            if got != want {
                v.violation = Some(viol("C20/session-differs", format!("{}: session {si} holds {got:?}, model {want:?}", describe(&case.ops, k))));
                return v;
            }
        }
    }

    // finally: a restart where only the file survives reloads the saved sequence
    drop(sessions);
    let Some(s) = mk(&mut v) else { return v };
    let m = MSession { items: model_import(&file_model), ts_enabled: false };
    if let Some(x) = check_reload(&s, &m, "final restart") {
        v.violation = Some(x);
        return v;
    }
    // exactly-once, stated directly: no command line of the file is preceded by a dangling or
    // doubled timestamp line, and timestamps stay attached
    let mut prev_ts = false;
    for l in &file_model {
        let is_ts = l.strip_prefix('#').is_some_and(|c| c.trim().parse::<i64>().is_ok());
        if is_ts && prev_ts {
            v.violation = Some(viol("C20/file/dangling-timestamp", format!("two timestamp lines in a row in {file_model:?}; ops {:?}", case.ops)));
            return v;
        }
        prev_ts = is_ts;
    }
    if file_model.iter().any(|l| l.starts_with('#')) {
        v.stats.probe("file_with_timestamps");
    }
    v
}

fn all_ops() -> Vec<Op> {
    vec![Op::Add(0), Op::Add(1), Op::RlAdd(2), Op::AddS(0), Op::Save, Op::SaveA, Op::New, Op::Drop, Op::Exit, Op::Next, Op::Del(1), Op::Del(-1), Op::Clear, Op::ToggleTs, Op::RaceSave]
}

impl Check for C20 {
    fn id(&self) -> &'static str {
        "C20"
    }
    fn level(&self) -> &'static str {
        "exploration"
    }
    fn engine(&self) -> &'static str {
        "history"
    }
    fn generate(&self, seed: u64, tier: Tier) -> Value {
        let mut rng = Rng::new(seed);
        let maxlen = if tier == Tier::Thorough { 12 } else { 9 };
        let n = rng.range(5, maxlen);
        let ops: Vec<Op> = (0..n)
            .map(|_| match rng.below(21) {
                0..=2 => Op::Add(rng.below(CMDS.len() as u64) as usize),
                3..=4 => Op::RlAdd(rng.below(CMDS.len() as u64) as usize),
                5..=6 => Op::AddS(rng.below(WORDS.len() as u64) as usize),
                7..=8 => Op::Save,
                9 => if rng.below(2) == 0 { Op::SaveA } else { Op::RlSync },
                10..=11 => Op::New,
                12 => Op::Drop,
                13 => Op::Exit,
                14..=15 => Op::Next,
                16 => Op::Del(*rng.pick(&[1i64, 2, 3, -1, -2, -3, 7, 0])),
                17 => Op::Clear,
                18 => Op::RaceSave,
                _ => Op::ToggleTs,
            })
            .collect();
        let initial = match rng.below(4) {
            0 => vec!["old one".to_string(), "#1700000000".to_string(), "old two".to_string()],
            1 => vec!["#1700000001".to_string(), "stamped".to_string(), "plain".to_string()],
            _ => vec![],
        };
        serde_json::to_value(Case { class: "seeded".into(), ops, initial, race_seed: rng.next() }).unwrap_or(Value::Null)
    }
    fn exhaustive(&self, tier: Tier) -> Vec<Value> {
        // all sequences up to length L over the operation alphabet
        let ops = all_ops();
        let max_len = if tier == Tier::Thorough { 5 } else { 4 };
        let mut out = vec![];
        let mut stack: Vec<Vec<Op>> = vec![vec![]];
        while let Some(seq) = stack.pop() {
            if !seq.is_empty() {
                out.push(serde_json::to_value(Case { class: format!("exhaustive-len-{}", seq.len()), ops: seq.clone(), initial: vec![], race_seed: 7 }).unwrap_or(Value::Null));
            }
            if seq.len() < max_len {
                for o in &ops {
                    let mut s = seq.clone();
                    s.push(o.clone());
                    stack.push(s);
                }
            }
        }
        out
    }
    fn exhaustive_note(&self, tier: Tier) -> Option<String> {
        Some(format!("all operation sequences of length 1..={} over the 15-operation alphabet, starting from an empty file", if tier == Tier::Thorough { 5 } else { 4 }))
    }
    fn execute(&self, case: &Value) -> Verdict {
        match serde_json::from_value::<Case>(case.clone()) {
            Ok(c) => judge(&c),
            Err(e) => Verdict { harness_error: Some(format!("bad case: {e}")), ..Default::default() },
        }
    }
    fn shrink(&self, case: &Value) -> Vec<Value> {
        let Ok(c) = serde_json::from_value::<Case>(case.clone()) else { return vec![] };
        let mut out = vec![];
        for i in 0..c.ops.len() {
            if c.ops.len() > 1 {
                let mut d = c.clone();
                d.ops.remove(i);
                out.push(d);
            }
        }
        if !c.initial.is_empty() {
            let mut d = c.clone();
            d.initial = vec![];
            out.push(d);
        }
        out.into_iter().filter_map(|c| serde_json::to_value(c).ok()).collect()
    }
    fn rule(&self) -> String {
        format!(
            "all operation sequences up to length 4 (thorough: 5) over a {}-operation alphabet {{add (Shell::add_to_history, and through the reedline adapter + add_to_history; 3 commands incl. blank-padded), history -s, save_history, history -a, new session, drop session without saving, exit (save then drop), switch session, history -d 1 / -1, history -c, toggle HISTTIMEFORMAT, two sessions saving at the same time}} enumerated completely from an empty file, then seeded sequences of 5-12 operations over the full alphabet (7 commands, 3 words, more delete offsets) with up to three sessions alive and seeded initial file contents (with and without timestamp lines); after every operation the history file's lines and every session's item list must equal the executable model's, every new session must reload exactly the file's content, and a final restart must reload it; non-trivial = the sequence records something and saves; distinct = distinct (operation sequence, initial file)",
            all_ops().len()
        )
    }
    fn components(&self) -> Value {
        json!({
            "real": ["brush-core history.rs (History::import/add/flush/remove_nth_item/clear, dirty flags)", "shell/history.rs (load_history, save_history, add_to_history)", "brush-builtins history (-s -a -d -c)", "a real file in a private directory"],
            "stub": ["reedline itself: the history adapter brush hands to reedline (brush-interactive/src/reedline/history.rs) is real and is driven the way reedline's engine drives it (save(item) per accepted line, sync())", "sessions interleave at operation granularity, except in RaceSave, where two sessions save as two participants under the seeded token scheduler with a scheduling point at every write call on the file (seam H13); the appended lines must parse back to an order-preserving merge of the two sessions' entries", "torn or failed writes are not injected (the statement quantifies over histories, not faults)"]
        })
    }
    fn assumptions(&self) -> Vec<String> {
        vec![
            "timestamps are read back from the shell after recording, never predicted; second granularity".into(),
            "`history -w`, `#`-leading and multi-line commands are outside the statement and not generated".into(),
        ]
    }
    fn budget_s(&self, tier: Tier) -> u64 {
        match tier {
            Tier::Quick => 35,
            Tier::Thorough => 600,
        }
    }
}
