//! Runs one simulated execution of the real shell under a `SimConfig`.

use std::collections::HashMap;
use std::io::{BufRead, BufReader, Read};
use std::path::PathBuf;
use std::sync::{Arc, Mutex};

use brush_core::openfiles::{OpenFile, Stream};
use brush_core::{Shell, ShellExtensions};
use serde::{Deserialize, Serialize};

use crate::streams::{SimSink, SimStdin};
use crate::world::{self, Abort, Event, SimConfig, Stats};

#[derive(Clone, Debug, Serialize, Deserialize, PartialEq)]
pub enum FrontEnd {
    /// `brush -c SCRIPT` (Shell::run_dash_c_command)
    DashC,
    /// `brush FILE` (Shell::run_script on a real file in the run directory)
    ScriptFile,
    /// `brush < SCRIPT` (InteractiveShell::run_interactively over simulated stdin)
    Stdin,
    /// `brush -c 'source ./prog.sh'`
    Source,
    /// `brush -c 'eval "$PROG"'`
    Eval,
}

#[derive(Clone, Debug, Serialize, Deserialize)]
pub struct RunSpec {
    pub script: String,
    pub front_end: FrontEnd,
    pub cfg: SimConfig,
    /// files created in the run directory before the run: (relative name, content)
    pub files: Vec<(String, String)>,
    /// `set -o` style option names enabled at shell creation (errexit, nounset, pipefail...)
    pub set_options: Vec<String>,
    pub shopt_options: Vec<String>,
    /// positional arguments
    pub args: Vec<String>,
    /// whether the run needs a private working directory on disk
    pub needs_dir: bool,
    /// extra stdin payload appended after the script for the Stdin front-end; for the other
    /// front-ends this is the whole content of simulated stdin
    pub stdin_extra: String,
    /// go through brush-shell's entry.rs (argument parsing, instantiate_shell, run_in_shell)
    /// instead of calling the front-end functions directly
    #[serde(default)]
    pub via_entry: bool,
}

impl RunSpec {
    pub fn new(script: impl Into<String>, front_end: FrontEnd, cfg: SimConfig) -> Self {
        Self {
            script: script.into(),
            front_end,
            cfg,
            files: vec![],
            set_options: vec![],
            shopt_options: vec![],
            args: vec![],
            needs_dir: false,
            stdin_extra: String::new(),
            via_entry: false,
        }
    }
}

#[derive(Clone, Debug, Serialize, Deserialize, Default)]
pub struct Resources {
    pub scopes: usize,
    pub frames: usize,
    pub shell_fds: usize,
    pub live_pipe_ends: usize,
    pub live_participants: usize,
    pub proc_fds: usize,
    pub jobs: usize,
    pub traps_active: usize,
    pub dir_stack: usize,
    pub out_len: usize,
    pub err_len: usize,
    pub functions: usize,
    pub opens: u64,
    pub pipe_calls: u64,
    pub file_writes: u64,
    #[serde(default)]
    pub file_reads: u64,
    pub children_unreaped: u64,
}

pub fn sample_resources<SE: ShellExtensions>(shell: &Shell<SE>) -> Resources {
    let env = serde_json::to_value(shell.env()).unwrap_or_default();
    let scopes = env.get("scopes").and_then(|s| s.as_array()).map_or(0, |a| a.len());
    // descriptors that refer to files, directories or OS pipes; the runtime's own epoll /
    // eventfd / socket descriptors are not the shell's
    let proc_fds = std::fs::read_dir("/proc/self/fd").map_or(0, |d| {
        d.filter_map(|e| e.ok())
            .filter_map(|e| std::fs::read_link(e.path()).ok())
            .filter(|t| {
                let t = t.to_string_lossy();
                t.starts_with('/') || t.starts_with("pipe:")
            })
            .count()
    });
    let cs = serde_json::to_value(shell.call_stack()).unwrap_or_default();
    let traps_active = cs.get("active_trap_signals").and_then(|s| s.as_array()).map_or(0, |a| a.len());
    let (out_len, err_len, opens, pipe_calls, file_writes, file_reads, children_unreaped) =
        world::with(|w| (w.sinks[1].len(), w.sinks[2].len(), w.opens, w.pipe_calls, w.file_writes, w.file_reads, w.children_spawned - w.children_reaped));
    Resources {
        scopes,
        frames: shell.call_stack().depth(),
        shell_fds: shell.open_files().iter_fds().count(),
        live_pipe_ends: world::live_pipe_ends(),
        live_participants: world::live_participants(),
        proc_fds,
        jobs: shell.jobs().jobs.len(),
        traps_active,
        dir_stack: shell.directory_stack().len(),
        out_len,
        err_len,
        functions: shell.funcs().iter().count(),
        opens,
        pipe_calls,
        file_writes,
        file_reads,
        children_unreaped,
    }
}

#[derive(Clone, Debug, Serialize, Deserialize)]
pub struct RunResult {
    /// what the process would exit with (entry.rs: the shell's last exit status)
    pub status: Option<u8>,
    /// the main shell `exec`ed a simulated program (status is that program's)
    pub exec_replaced: bool,
    /// exit code carried by the front-end's ExecutionResult, when it returned one
    pub result_code: Option<u8>,
    pub front_end_error: Option<String>,
    pub events: Vec<Event>,
    pub out: Vec<u8>,
    pub err: Vec<u8>,
    pub abort: Option<Abort>,
    pub loghash: u64,
    pub shapehash: u64,
    pub decisions: u64,
    pub clock: u64,
    pub schedule: Vec<u32>,
    pub stats: Stats,
    pub participants: usize,
    pub pipes: usize,
    pub opens: u64,
    pub stdin_reads: u64,
    #[serde(default)]
    pub file_reads: u64,
    #[serde(default)]
    pub proc_exits: Vec<(String, i32)>,
    pub orphans_blocked: bool,
    pub final_resources: Option<Resources>,
    pub snapshot: Option<serde_json::Value>,
    pub harness_error: Option<String>,
}

/// The process-global stdin buffer, shared between the shell's fd 0 and the input backend.
#[derive(Clone)]
pub struct SharedStdin(pub Arc<Mutex<BufReader<SimStdin>>>);

impl Stream for SharedStdin {
    fn clone_box(&self) -> Box<dyn Stream> {
        Box::new(self.clone())
    }
    fn try_clone_to_owned(&self) -> Result<std::os::fd::OwnedFd, brush_core::Error> {
        Err(brush_core::ErrorKind::CannotConvertToNativeFd.into())
    }
    fn try_borrow_as_fd(&self) -> Result<std::os::fd::BorrowedFd<'_>, brush_core::Error> {
        Err(brush_core::ErrorKind::CannotConvertToNativeFd.into())
    }
}
impl Read for SharedStdin {
    fn read(&mut self, buf: &mut [u8]) -> std::io::Result<usize> {
        self.0.lock().unwrap_or_else(|e| e.into_inner()).read(buf)
    }
}
impl std::io::Write for SharedStdin {
    fn write(&mut self, _buf: &[u8]) -> std::io::Result<usize> {
        Err(std::io::Error::other("stdin is not writable"))
    }
    fn flush(&mut self) -> std::io::Result<()> {
        Ok(())
    }
}

/// Input backend that feeds the real `read_program_from` from simulated stdin.
pub struct SimBackend {
    stdin: SharedStdin,
}

impl brush_interactive::InputBackend for SimBackend {
    fn read_line(
        &mut self,
        shell: &brush_interactive::ShellRef<impl ShellExtensions>,
        _prompt: brush_interactive::InteractivePrompt,
    ) -> Result<brush_interactive::ReadResult, brush_interactive::ShellError> {
        let mut guard = self.stdin.0.lock().unwrap_or_else(|e| e.into_inner());
        let reader: &mut BufReader<SimStdin> = &mut guard;
        let mut sink = std::io::sink();
        brush_interactive::MinimalInputBackend::verif_read_program_from(shell, None, reader, &mut sink)
    }
}

// keep BufRead in scope for the generic bound above
#[allow(dead_code)]
fn _assert_bufread<T: BufRead>(_: &T) {}

static DIR_COUNTER: std::sync::atomic::AtomicU64 = std::sync::atomic::AtomicU64::new(0);

pub fn scratch_root() -> PathBuf {
    let base = std::env::var("BRUSHSIM_SCRATCH").unwrap_or_else(|_| "/tmp/brushsim".into());
    PathBuf::from(base).join(format!("w{:010}", std::process::id()))
}

fn fresh_dir() -> PathBuf {
    let n = DIR_COUNTER.fetch_add(1, std::sync::atomic::Ordering::SeqCst);
    // the directory name never enters a decision or the event log
    let d = scratch_root().join(format!("r{}", n % 4));
    let _ = std::fs::remove_dir_all(&d);
    let _ = std::fs::create_dir_all(&d);
    d
}

pub fn install_hooks() {
    // process ids are reused: never inherit a scratch directory from an earlier process, and
    // leave none behind
    let _ = std::fs::remove_dir_all(scratch_root());
    extern "C" fn cleanup() {
        let _ = std::fs::remove_dir_all(scratch_root());
    }
    unsafe {
        libc::atexit(cleanup);
    }
    brush_core::verif::install(brush_core::verif::Hooks {
        active: world::is_active,
        task_spawn: world::task_spawn,
        task_spawned: world::task_spawned,
        task_begin: world::task_begin,
        task_end: world::task_end,
        before_join: world::before_join,
        before_poll: world::before_poll,
        pipe: crate::streams::sim_pipe,
        io_point: world::io_point,
        open_point: world::open_point,
        sim_spawn: crate::procs::sim_spawn,
        sim_exec: crate::procs::sim_exec,
        before_process_wait: world::before_process_wait,
        before_process_poll: world::before_process_poll,
    });
    // silence SimAbort unwinds; keep real panics visible
    let default = std::panic::take_hook();
    std::panic::set_hook(Box::new(move |info| {
        if info.payload().downcast_ref::<world::SimAbort>().is_some() {
            return;
        }
        if std::env::var("BRUSHSIM_PANICS").is_ok() {
            default(info);
        }
    }));
}

pub type SimShell = Shell<brush_core::extensions::DefaultShellExtensions>;

pub async fn build_shell(spec: &RunSpec, dir: &PathBuf, stdin: &SharedStdin) -> Result<SimShell, brush_core::Error> {
    use brush_builtins::ShellBuilderExt as _;
    let mut extra = HashMap::new();
    crate::builtins::register(&mut extra);
    let mut fds: HashMap<brush_core::ShellFd, OpenFile> = HashMap::new();
    fds.insert(0, OpenFile::Stream(Box::new(stdin.clone())));
    fds.insert(1, OpenFile::Stream(Box::new(SimSink(1))));
    fds.insert(2, OpenFile::Stream(Box::new(SimSink(2))));
    let mut b = Shell::builder()
        .default_builtins(brush_builtins::BuiltinSet::BashMode)
        .builtins(extra)
        .fds(fds)
        .working_dir(dir.clone())
        .do_not_inherit_env(true)
        .profile(brush_core::ProfileLoadBehavior::Skip)
        .rc(brush_core::RcLoadBehavior::Skip)
        .interactive(false)
        .shell_name("brush".to_string())
        .shell_args(spec.args.clone())
        .command_string_mode(matches!(spec.front_end, FrontEnd::DashC | FrontEnd::Source | FrontEnd::Eval))
        .read_commands_from_stdin(matches!(spec.front_end, FrontEnd::Stdin))
        .enable_options(spec.set_options.clone())
        .enable_shopt_options(spec.shopt_options.clone());
    b = b.var("PATH", brush_core::ShellVariable::new(crate::procs::bin_dir().to_string_lossy().to_string()));
    if spec.front_end == FrontEnd::Eval {
        b = b.var("PROG", brush_core::ShellVariable::new(spec.script.clone()));
    }
    b.build().await
}

/// Command line for brush-shell's entry point equivalent to what `build_shell` configures.
fn entry_args(spec: &RunSpec, dir: &PathBuf) -> Vec<String> {
    let mut a: Vec<String> = vec!["brush".into(), "--norc".into(), "--noprofile".into(), "--no-config".into(), "--noenv".into(), "--input-backend".into(), "minimal".into()];
    for o in &spec.set_options {
        a.push("-o".into());
        a.push(o.clone());
    }
    for o in &spec.shopt_options {
        a.push("-O".into());
        a.push(o.clone());
    }
    match spec.front_end {
        FrontEnd::DashC => {
            a.push("-c".into());
            a.push(spec.script.clone());
            if !spec.args.is_empty() {
                a.push("brush".into());
                a.extend(spec.args.iter().cloned());
            }
        }
        FrontEnd::Source => {
            a.push("-c".into());
            a.push("source ./prog.sh".into());
            if !spec.args.is_empty() {
                a.push("brush".into());
                a.extend(spec.args.iter().cloned());
            }
        }
        FrontEnd::Eval => {
            a.push("-c".into());
            a.push("eval \"$PROG\"".into());
            if !spec.args.is_empty() {
                a.push("brush".into());
                a.extend(spec.args.iter().cloned());
            }
        }
        FrontEnd::ScriptFile => {
            a.push(dir.join("prog.sh").to_string_lossy().to_string());
            a.extend(spec.args.iter().cloned());
        }
        FrontEnd::Stdin => {
            a.push("-s".into());
            a.extend(spec.args.iter().cloned());
        }
    }
    a
}

struct EntrySetup {
    stdin: SharedStdin,
    dir: PathBuf,
    prog: Option<String>,
}

impl brush_shell::entry::VerifSetup for EntrySetup {
    fn setup<SE: ShellExtensions>(self, shell: &mut Shell<SE>) {
        let mut extra = HashMap::new();
        crate::builtins::register::<SE>(&mut extra);
        for (name, reg) in extra {
            shell.register_builtin(&name, reg);
        }
        let fds: Vec<(brush_core::ShellFd, OpenFile)> = vec![
            (0, OpenFile::Stream(Box::new(self.stdin.clone()))),
            (1, OpenFile::Stream(Box::new(SimSink(1)))),
            (2, OpenFile::Stream(Box::new(SimSink(2)))),
        ];
        shell.replace_open_files(fds.into_iter());
        let _ = shell.set_working_dir(&self.dir);
        let _ = shell.env_mut().unset("OLDPWD");
        let _ = shell.env_mut().set_global("PATH", brush_core::ShellVariable::new(crate::procs::bin_dir().to_string_lossy().to_string()));
        if let Some(p) = self.prog {
            let _ = shell.env_mut().set_global("PROG", brush_core::ShellVariable::new(p));
        }
    }
}

/// Hook for checks that want to look at the final shell before it is dropped.
pub type Inspect = fn(&SimShell) -> serde_json::Value;

pub fn run(spec: &RunSpec) -> RunResult {
    run_with(spec, None)
}

pub fn run_with(spec: &RunSpec, inspect: Option<Inspect>) -> RunResult {
    let dir = if spec.needs_dir || !spec.files.is_empty() || matches!(spec.front_end, FrontEnd::ScriptFile | FrontEnd::Source) {
        let d = fresh_dir();
        for (name, content) in &spec.files {
            if let Some(parent) = d.join(name).parent() {
                let _ = std::fs::create_dir_all(parent);
            }
            let _ = std::fs::write(d.join(name), content);
        }
        if matches!(spec.front_end, FrontEnd::ScriptFile | FrontEnd::Source) {
            let _ = std::fs::write(d.join("prog.sh"), &spec.script);
        }
        d
    } else {
        let d = scratch_root().join("empty");
        if !d.exists() {
            let _ = std::fs::create_dir_all(&d);
        }
        d
    };

    let stdin_bytes: Vec<u8> = match spec.front_end {
        FrontEnd::Stdin => {
            let mut v = spec.script.clone().into_bytes();
            v.extend_from_slice(spec.stdin_extra.as_bytes());
            v
        }
        _ => spec.stdin_extra.clone().into_bytes(),
    };

    // process-wide state that workloads may touch
    let saved_umask = unsafe { libc::umask(0o022) };
    unsafe { libc::umask(saved_umask) };
    let mut saved_core = libc::rlimit { rlim_cur: 0, rlim_max: 0 };
    unsafe { libc::getrlimit(libc::RLIMIT_CORE, &mut saved_core) };
    let mut saved_nofile = libc::rlimit { rlim_cur: 0, rlim_max: 0 };
    unsafe { libc::getrlimit(libc::RLIMIT_NOFILE, &mut saved_nofile) };

    world::begin_run(spec.cfg.clone(), stdin_bytes);

    let rt = tokio::runtime::Builder::new_current_thread().enable_all().max_blocking_threads(2000).build();
    let rt = match rt {
        Ok(rt) => rt,
        Err(e) => {
            let _ = world::end_run();
            return harness_fail(format!("runtime: {e}"));
        }
    };

    struct Out {
        status: Option<u8>,
        result_code: Option<u8>,
        fe_err: Option<String>,
        res: Option<Resources>,
        snap: Option<serde_json::Value>,
    }

    let spec2 = spec.clone();
    let dir2 = dir.clone();
    let body = std::panic::AssertUnwindSafe(|| {
        rt.block_on(async move {
            let stdin = SharedStdin(Arc::new(Mutex::new(BufReader::with_capacity(spec2.cfg.stdin_buf.max(1), SimStdin))));
            if spec2.via_entry {
                let mut out = Out { status: None, result_code: None, fe_err: None, res: None, snap: None };
                let mut backend = SimBackend { stdin: stdin.clone() };
                let setup = EntrySetup { stdin: stdin.clone(), dir: dir2.clone(), prog: if spec2.front_end == FrontEnd::Eval { Some(spec2.script.clone()) } else { None } };
                match brush_shell::entry::verif_run(entry_args(&spec2, &dir2), setup, &mut backend).await {
                    Ok(code) => out.status = Some(code),
                    Err(e) => out.fe_err = Some(format!("{e}")),
                }
                drop(backend);
                world::with(|w| w.main_done = true);
                drop(stdin);
                world::wait_all();
                return out;
            }
            let shell = match build_shell(&spec2, &dir2, &stdin).await {
                Ok(s) => s,
                Err(e) => {
                    return Out { status: None, result_code: None, fe_err: Some(format!("build: {e}")), res: None, snap: None };
                }
            };
            let mut out = Out { status: None, result_code: None, fe_err: None, res: None, snap: None };
            let shell = match spec2.front_end {
                FrontEnd::Stdin => {
                    let shell_ref = Arc::new(tokio::sync::Mutex::new(shell));
                    let mut backend = SimBackend { stdin: stdin.clone() };
                    let opts = brush_interactive::InteractiveOptions::default();
                    match brush_interactive::InteractiveShell::new(&shell_ref, &mut backend, &opts) {
                        Ok(mut ish) => {
                            if let Err(e) = ish.run_interactively().await {
                                out.fe_err = Some(format!("{e}"));
                            }
                        }
                        Err(e) => out.fe_err = Some(format!("{e}")),
                    }
                    drop(backend);
                    match Arc::try_unwrap(shell_ref) {
                        Ok(m) => m.into_inner(),
                        Err(_) => {
                            out.fe_err = Some("shell ref still shared".into());
                            return out;
                        }
                    }
                }
                _ => {
                    let mut shell = shell;
                    let r = match spec2.front_end {
                        FrontEnd::DashC => shell.run_dash_c_command(spec2.script.clone()).await,
                        FrontEnd::Source => shell.run_dash_c_command("source ./prog.sh".to_string()).await,
                        FrontEnd::Eval => shell.run_dash_c_command("eval \"$PROG\"".to_string()).await,
                        FrontEnd::ScriptFile => shell.run_script(dir2.join("prog.sh"), spec2.args.iter().cloned()).await,
                        FrontEnd::Stdin => unreachable!(),
                    };
                    match r {
                        Ok(res) => out.result_code = Some(u8::from(res.exit_code)),
                        Err(e) => out.fe_err = Some(format!("{e}")),
                    }
                    shell
                }
            };
            out.status = Some(shell.last_exit_status());
            out.res = Some(sample_resources(&shell));
            if let Some(f) = inspect {
                out.snap = Some(f(&shell));
            }
            world::with(|w| w.main_done = true);
            drop(shell);
            drop(stdin);
            world::wait_all();
            out
        })
    });
    let caught = std::panic::catch_unwind(body);

    let mut harness_error = None;
    let mut panic_detail = None;
    let out = match caught {
        Ok(o) => Some(o),
        Err(p) => {
            if p.downcast_ref::<world::SimAbort>().is_none() {
                let msg = p
                    .downcast_ref::<String>()
                    .cloned()
                    .or_else(|| p.downcast_ref::<&str>().map(|s| (*s).to_string()))
                    .unwrap_or_else(|| "panic".into());
                panic_detail = Some(msg);
                // make sure parked participants are released
                world::with(|w| {
                    if w.abort.is_none() {
                        w.abort = Some(Abort::Panic { detail: "main participant panicked".into() });
                    }
                });
            }
            None
        }
    };
    // wake everybody so that aborted participants unwind
    world::with(|_| ());
    world::notify();
    if !world::wait_threads_gone(20) {
        harness_error = Some("participant threads did not leave the simulation".to_string());
    }
    rt.shutdown_background();
    let w = world::end_run();

    unsafe { libc::umask(saved_umask) };
    unsafe { libc::setrlimit(libc::RLIMIT_CORE, &saved_core) };
    unsafe { libc::setrlimit(libc::RLIMIT_NOFILE, &saved_nofile) };

    let mut abort = w.abort.clone();
    if let Some(d) = panic_detail {
        abort = Some(Abort::Panic { detail: d });
    }
    // `exec` of a simulated program: the process ended with that program's status
    let exec_status: Option<u8> = w.exec_replaced.map(|raw| if raw & 0x7f != 0 { 128 + (raw & 0x7f) as u8 } else { ((raw >> 8) & 0xff) as u8 });
    if exec_status.is_some() && matches!(&abort, Some(Abort::Panic { detail }) if detail == "exec") {
        abort = None;
    }
    let orphans_blocked = matches!(&abort, Some(Abort::Deadlock { main_done: true, .. }));
    RunResult {
        status: exec_status.or(out.as_ref().and_then(|o| o.status)),
        exec_replaced: exec_status.is_some(),
        result_code: out.as_ref().and_then(|o| o.result_code),
        front_end_error: out.as_ref().and_then(|o| o.fe_err.clone()),
        events: w.events,
        out: w.sinks[1].clone(),
        err: w.sinks[2].clone(),
        abort,
        loghash: w.loghash,
        shapehash: w.shapehash,
        decisions: w.decisions,
        clock: w.clock,
        schedule: w.recorded,
        stats: w.stats,
        participants: w.parts.len(),
        pipes: w.pipes.len(),
        opens: w.opens,
        stdin_reads: w.stdin_reads,
        file_reads: w.file_reads,
        proc_exits: w.proc_exits.clone(),
        orphans_blocked,
        final_resources: out.as_ref().and_then(|o| o.res.clone()),
        snapshot: out.and_then(|o| o.snap),
        harness_error,
    }
}

fn harness_fail(msg: String) -> RunResult {
    RunResult {
        status: None,
        exec_replaced: false,
        result_code: None,
        front_end_error: None,
        events: vec![],
        out: vec![],
        err: vec![],
        abort: None,
        loghash: 0,
        shapehash: 0,
        decisions: 0,
        clock: 0,
        schedule: vec![],
        stats: Stats::default(),
        participants: 0,
        pipes: 0,
        opens: 0,
        stdin_reads: 0,
        file_reads: 0,
        proc_exits: vec![],
        orphans_blocked: false,
        final_resources: None,
        snapshot: None,
        harness_error: Some(msg),
    }
}

// ---------------------------------------------------------------------------------------
// Full state snapshot of a shell (C12): serde dump of the Shell plus what serde leaves out.

fn rlimit_soft(res: libc::__rlimit_resource_t) -> i64 {
    let mut r = libc::rlimit { rlim_cur: 0, rlim_max: 0 };
    let rc = unsafe { libc::getrlimit(res, &mut r) };
    if rc == 0 { r.rlim_cur as i64 } else { -1 }
}

pub fn process_umask() -> u32 {
    let m = unsafe { libc::umask(0o022) };
    unsafe { libc::umask(m) };
    m as u32
}

pub fn snapshot<SE: ShellExtensions>(shell: &Shell<SE>) -> serde_json::Value {
    use std::os::fd::AsRawFd;
    let mut v = serde_json::to_value(shell).unwrap_or(serde_json::Value::Null);
    if let Some(o) = v.as_object_mut() {
        for k in ["last_exit_status", "last_exit_status_change_count", "last_pipeline_statuses", "last_stopwatch_time"] {
            o.remove(k);
        }
        // persistent descriptor table with identities
        let mut fds = std::collections::BTreeMap::new();
        for (fd, f) in shell.open_files().iter_fds() {
            let desc = match f.try_borrow_as_fd() {
                Ok(b) => {
                    let fl = unsafe { libc::fcntl(b.as_raw_fd(), libc::F_GETFL) };
                    let target = std::fs::read_link(format!("/proc/self/fd/{}", b.as_raw_fd())).map(|p| p.to_string_lossy().to_string()).unwrap_or_default();
                    format!("{f} -> {target} flags={:o}", fl & (libc::O_APPEND | libc::O_ACCMODE))
                }
                Err(_) => format!("{f}"),
            };
            fds.insert(fd.to_string(), desc);
        }
        o.insert("x_fds".into(), serde_json::json!(fds));
        let mut disabled: Vec<String> = shell.builtins().iter().filter(|(_, r)| r.disabled).map(|(n, _)| n.clone()).collect();
        disabled.sort();
        o.insert("x_disabled_builtins".into(), serde_json::json!(disabled));
        o.insert("x_builtin_count".into(), serde_json::json!(shell.builtins().len()));
        o.insert("x_jobs".into(), serde_json::json!(shell.jobs().jobs.iter().map(|j| j.id).collect::<Vec<_>>()));
        o.insert(
            "x_proc".into(),
            serde_json::json!({
                "umask": format!("{:04o}", process_umask()),
                "rlimit_core": rlimit_soft(libc::RLIMIT_CORE),
                "rlimit_nofile": rlimit_soft(libc::RLIMIT_NOFILE),
                "rlimit_fsize": rlimit_soft(libc::RLIMIT_FSIZE),
                "rlimit_stack": rlimit_soft(libc::RLIMIT_STACK),
                "cwd": std::env::current_dir().map(|p| p.to_string_lossy().to_string()).unwrap_or_default(),
                "env_count": std::env::vars_os().count(),
            }),
        );
    }
    // the private run directory's name never enters a comparison
    let mut text = v.to_string();
    let root = scratch_root().to_string_lossy().to_string();
    for i in 0..4 {
        text = text.replace(&format!("{root}/r{i}"), "<RUN>");
    }
    serde_json::from_str(&text).unwrap_or(v)
}

/// Paths (dotted) at which two JSON values differ.
pub fn json_diff(a: &serde_json::Value, b: &serde_json::Value, path: &str, out: &mut Vec<String>) {
    use serde_json::Value as V;
    if out.len() > 40 {
        return;
    }
    match (a, b) {
        (V::Object(x), V::Object(y)) => {
            let mut keys: Vec<&String> = x.keys().chain(y.keys()).collect();
            keys.sort();
            keys.dedup();
            for k in keys {
                let p = if path.is_empty() { k.clone() } else { format!("{path}.{k}") };
                match (x.get(k), y.get(k)) {
                    (Some(u), Some(w)) => json_diff(u, w, &p, out),
                    (Some(u), None) => out.push(format!("{p}: {} vs <absent>", short(u))),
                    (None, Some(w)) => out.push(format!("{p}: <absent> vs {}", short(w))),
                    (None, None) => {}
                }
            }
        }
        (V::Array(x), V::Array(y)) => {
            if x.len() != y.len() {
                out.push(format!("{path}: array length {} vs {}", x.len(), y.len()));
            }
            for (i, (u, w)) in x.iter().zip(y.iter()).enumerate() {
                json_diff(u, w, &format!("{path}[{i}]"), out);
            }
        }
        _ => {
            if a != b {
                out.push(format!("{path}: {} vs {}", short(a), short(b)));
            }
        }
    }
}

fn short(v: &serde_json::Value) -> String {
    let s = v.to_string();
    if s.len() > 80 { format!("{}…", s.chars().take(80).collect::<String>()) } else { s }
}
