//! `brush_core::openfiles::Stream` implementations backed by the simulated world.

use std::io;
use std::sync::Arc;

use brush_core::openfiles::Stream;

use crate::world;

struct EndInner {
    pipe: usize,
    writer: bool,
    gen_id: u64,
}

impl Drop for EndInner {
    fn drop(&mut self) {
        world::pipe_close(self.pipe, self.writer, self.gen_id);
    }
}

#[derive(Clone)]
pub struct PipeEnd(Arc<EndInner>);

pub fn sim_pipe(site: &'static str) -> io::Result<(Box<dyn Stream>, Box<dyn Stream>)> {
    let (pipe, gen_id) = world::pipe_create(site)?;
    let r = PipeEnd(Arc::new(EndInner { pipe, writer: false, gen_id }));
    let w = PipeEnd(Arc::new(EndInner { pipe, writer: true, gen_id }));
    Ok((Box::new(r), Box::new(w)))
}

fn no_fd<T>() -> Result<T, brush_core::Error> {
    Err(brush_core::ErrorKind::CannotConvertToNativeFd.into())
}

impl Stream for PipeEnd {
    fn clone_box(&self) -> Box<dyn Stream> {
        Box::new(self.clone())
    }
    fn try_clone_to_owned(&self) -> Result<std::os::fd::OwnedFd, brush_core::Error> {
        // an external command may inherit a simulated pipe as an extra descriptor (e.g. a
        // process substitution); compose_std_command wants an owned descriptor for it. The
        // simulated process receives the simulated end itself; this placeholder is dropped
        // with the never-spawned std::process::Command.
        std::fs::File::open("/dev/null").map(std::os::fd::OwnedFd::from).map_err(|_| brush_core::ErrorKind::CannotConvertToNativeFd.into())
    }
    fn try_borrow_as_fd(&self) -> Result<std::os::fd::BorrowedFd<'_>, brush_core::Error> {
        no_fd()
    }
}

impl io::Read for PipeEnd {
    fn read(&mut self, buf: &mut [u8]) -> io::Result<usize> {
        if self.0.writer {
            return Err(io::Error::other("pipe writer is not readable"));
        }
        world::pipe_read(self.0.pipe, buf)
    }
}

impl io::Write for PipeEnd {
    fn write(&mut self, buf: &[u8]) -> io::Result<usize> {
        if !self.0.writer {
            return Err(io::Error::other("pipe reader is not writable"));
        }
        world::pipe_write(self.0.pipe, buf)
    }
    fn flush(&mut self) -> io::Result<()> {
        Ok(())
    }
}

/// Simulated stdout (1) / stderr (2).
#[derive(Clone)]
pub struct SimSink(pub u8);

impl Stream for SimSink {
    fn clone_box(&self) -> Box<dyn Stream> {
        Box::new(self.clone())
    }
    fn try_clone_to_owned(&self) -> Result<std::os::fd::OwnedFd, brush_core::Error> {
        no_fd()
    }
    fn try_borrow_as_fd(&self) -> Result<std::os::fd::BorrowedFd<'_>, brush_core::Error> {
        no_fd()
    }
}

impl io::Read for SimSink {
    fn read(&mut self, _buf: &mut [u8]) -> io::Result<usize> {
        Err(io::Error::other("sink is not readable"))
    }
}

impl io::Write for SimSink {
    fn write(&mut self, buf: &[u8]) -> io::Result<usize> {
        world::sink_write(self.0, buf)
    }
    fn flush(&mut self) -> io::Result<()> {
        Ok(())
    }
}

/// Simulated standard input.
#[derive(Clone)]
pub struct SimStdin;

impl Stream for SimStdin {
    fn clone_box(&self) -> Box<dyn Stream> {
        Box::new(self.clone())
    }
    fn try_clone_to_owned(&self) -> Result<std::os::fd::OwnedFd, brush_core::Error> {
        no_fd()
    }
    fn try_borrow_as_fd(&self) -> Result<std::os::fd::BorrowedFd<'_>, brush_core::Error> {
        no_fd()
    }
}

impl io::Read for SimStdin {
    fn read(&mut self, buf: &mut [u8]) -> io::Result<usize> {
        world::stdin_read(buf)
    }
}

impl io::Write for SimStdin {
    fn write(&mut self, _buf: &[u8]) -> io::Result<usize> {
        Err(io::Error::other("stdin is not writable"))
    }
    fn flush(&mut self) -> io::Result<()> {
        Ok(())
    }
}
