//! C16 — the EXIT trap runs exactly once on every way out, and traps preserve `$?`.
//!
//! Programs come from a control-flow grammar whose leaves are probes; a reference
//! interpreter predicts the probe sequence and the terminating status. Every program is run
//! fault-free (exact model) and then once per fault position (observational oracle).

use serde::{Deserialize, Serialize};
use serde_json::{Value, json};

use crate::check::{Check, Tier, Verdict, Violation};
use crate::runner::{self, FrontEnd, RunResult, RunSpec};
use crate::world::{Abort, ErrKind, EventKind, Fault, Rng, SimConfig, Strategy};

#[derive(Clone, Debug, Serialize, Deserialize, PartialEq)]
pub enum Handler {
    ProbeOnly,
    /// `probe exit_h; simexit 5`
    Failing,
    CallsFunction,
    /// `probe exit_h; trap - EXIT`
    RemovesItself,
    /// `probe exit_h; trap "probe exit_h" EXIT` (must still run once)
    ReinstallsItself,
    Exits(u8),
    /// `probe exit_h; echo bye`
    Output,
}

#[derive(Clone, Debug, Serialize, Deserialize, PartialEq)]
pub enum ErrHandler {
    /// `probe err_h; true`
    Clobbers,
    /// `probe err_h; simexit 4`
    Failing,
    /// `probe err_h; exit M`: the shell ends with M at the first failing command
    Exits(u8),
    /// `probe errs_b %traps; . ./errh.sh; probe errs_e`: a command fails inside a file the handler
    /// sources (the handler must not be entered again for it)
    SourcesFailing,
    /// under `set -E`: `probe errs_b %traps; xh=$(simexit 3); probe errs_e` - a command fails
    /// inside a command substitution of the handler, which inherits the ERR trap
    SubstFailingE,
}

#[derive(Clone, Debug, Serialize, Deserialize, PartialEq)]
pub enum Cause {
    Exit(Option<u8>),
    /// `set -e; simexit S`
    Errexit(u8),
    /// `set -u; : $UNSET_VAR_C16`
    Nounset,
    /// `: ${UNSET_VAR_C16?boom}`
    ParamError,
    /// `set -e; : > /nonexistent_dir_c16/x`
    RedirectError,
    /// `set -e; nosuchcmd_c16`
    UnknownCommand,
    /// `set -e; xa=$(simexit S)`
    ErrexitAssign(u8),
    /// `set -e; (( 0 ))`
    ErrexitArith,
    /// `set -e; [[ a == b ]]`
    ErrexitCond,
    /// `set -e; true && simexit S` (the last operand of an and-or list is not exempt)
    ErrexitAndOrLast(u8),
    /// `! exit N`: the shell ends with N, not with its negation
    BangExit(u8),
    /// `exec xexit N`: the shell is replaced by a (simulated) program; no EXIT handler runs
    Exec(u8),
    /// `trap "exit N" DEBUG` followed by a command: the handler's `exit` ends the shell before
    /// that command runs
    DebugExit(u8),
}

/// Other ways of producing a status than a plain `simexit S`.
#[derive(Clone, Debug, Serialize, Deserialize, PartialEq)]
pub enum Via {
    /// `xa=$(simexit S)`
    Assign(u8),
    /// `(( 0 ))`
    Arith,
    /// `[[ a == b ]]`
    Cond,
    /// `true && simexit S`
    AndOrLast(u8),
    /// `! true` (status 1, exempt from errexit and from the ERR trap)
    Bang,
    /// `simexit S || simexit 0` (first operand exempt; the list succeeds)
    OrRescued(u8),
    /// `compgen -F nosuchfn_c16 x 2>/dev/null || simexit 0` (a completion function that cannot run)
    CompgenMissing,
    /// a background job that ends in a shell error and has finished before the next command is
    /// read: `{ : ${UNSET?boom}; } &`, `simsleep 2`, `wait || simexit 0`
    BgJobError,
}

#[derive(Clone, Debug, Serialize, Deserialize, PartialEq)]
pub enum Node {
    Probe,
    Out,
    Status(u8),
    If(Vec<Node>),
    For(u8, Vec<Node>),
    Func(Vec<Node>),
    Eval(Vec<Node>),
    Source(Vec<Node>),
    Brace(Vec<Node>),
    /// `case x in x) BODY ;; esac`
    CaseArm(Vec<Node>),
    /// `while read wl; do BODY; done <<< x` (one iteration)
    WhileRead(Vec<Node>),
    StatusVia(Via),
    Subshell(Vec<Node>),
    CmdSubst(Vec<Node>),
    Bg(Vec<Node>),
    TrapExit(Handler),
    TrapExitRemove,
    /// `trap "" EXIT` (ignore: nothing runs at exit)
    #[serde(alias = "TrapExitIgnore")]
    TrapExitIgnore,
    TrapErr(ErrHandler),
    Term(Cause),
}

#[derive(Clone, Debug, Serialize, Deserialize)]
pub struct Case {
    pub class: String,
    pub program: Vec<Node>,
    pub front_end: FrontEnd,
    pub faults: bool,
    #[serde(default)]
    pub via_entry: bool,
    /// an inert DEBUG trap (`trap ": dbg" DEBUG`) is set before the program: it fires, and its
    /// handler frame comes and goes, around every command, including those of other handlers
    #[serde(default)]
    pub debug_inert: bool,
    pub cfg: SimConfig,
}

// ---------------------------------------------------------------------------------------
// rendering

struct Renderer {
    next: u32,
    files: Vec<(String, String)>,
}

impl Renderer {
    fn id(&mut self) -> u32 {
        self.next += 1;
        self.next
    }

    fn block(&mut self, nodes: &[Node]) -> String {
        let mut out = vec![];
        for n in nodes {
            out.push(self.node(n));
        }
        if out.is_empty() {
            out.push(":".to_string());
        }
        out.join("\n")
    }

    fn node(&mut self, n: &Node) -> String {
        match n {
            Node::Probe => format!("probe p{}", self.id()),
            Node::Out => format!("echo o{}", self.id()),
            Node::Status(s) => format!("simexit {s}"),
            Node::If(b) => format!("if true; then\n{}\nfi", self.block(b)),
            Node::For(k, b) => {
                let i = self.id();
                let items: Vec<String> = (1..=*k).map(|x| x.to_string()).collect();
                format!("for i{i} in {}; do\n{}\ndone", items.join(" "), self.block(b))
            }
            Node::Func(b) => {
                let i = self.id();
                format!("fn{i}() {{\n{}\n}}\nfn{i}", self.block(b))
            }
            Node::Eval(b) => format!("eval '{}'", self.block(b)),
            Node::Source(b) => {
                let i = self.id();
                let body = self.block(b);
                self.files.push((format!("src{i}.sh"), format!("{body}\n")));
                format!(". ./src{i}.sh")
            }
            Node::Brace(b) => format!("{{\n{}\n}}", self.block(b)),
            Node::CaseArm(b) => format!("case x in\nx)\n{}\n;;\nesac", self.block(b)),
            // (a here-string, not a here-document: side finding, a here-document that follows a
            // multi-line `$( … (( … )) … )` is mis-tokenised by brush)
            Node::WhileRead(b) => format!("while read wl; do\n{}\ndone <<< x", self.block(b)),
            Node::StatusVia(v) => match v {
                Via::Assign(s) => format!("xa=$(simexit {s})"),
                Via::Arith => "(( 0 ))".to_string(),
                Via::Cond => "[[ a == b ]]".to_string(),
                Via::AndOrLast(s) => format!("true && simexit {s}"),
                Via::Bang => "! true".to_string(),
                Via::OrRescued(s) => format!("simexit {s} || simexit 0"),
                Via::CompgenMissing => "compgen -F nosuchfn_c16 x 2>/dev/null || simexit 0".to_string(),
                Via::BgJobError => "{ : ${UNSET_C16_BG?boom}; } &\nsimsleep 2\nwait || simexit 0".to_string(),
            },
            Node::Subshell(b) => format!("(\n{}\n)", self.block(b)),
            Node::CmdSubst(b) => {
                let i = self.id();
                format!("x{i}=$(\n{}\n)", self.block(b))
            }
            Node::Bg(b) => format!("{{\n{}\n}} &\nwait", self.block(b)),
            Node::TrapExit(h) => {
                let i = self.id();
                let t = match h {
                    Handler::ProbeOnly => "trap \"probe exit_h\" EXIT".to_string(),
                    Handler::Failing => "trap \"probe exit_h; simexit 5\" EXIT".to_string(),
                    Handler::CallsFunction => format!("hfn{i}() {{ probe exit_h; }}; trap \"hfn{i}\" EXIT"),
                    Handler::RemovesItself => "trap \"probe exit_h; trap - EXIT\" EXIT".to_string(),
                    Handler::ReinstallsItself => "trap \"probe exit_h; trap \\\"probe exit_h\\\" EXIT\" EXIT".to_string(),
                    Handler::Exits(m) => format!("trap \"probe exit_h; exit {m}\" EXIT"),
                    Handler::Output => "trap \"probe exit_h; echo bye\" EXIT".to_string(),
                };
                format!("{t}; probe ts{i}")
            }
            Node::TrapExitRemove => {
                let i = self.id();
                format!("trap - EXIT; probe tr{i}")
            }
            Node::TrapExitIgnore => {
                let i = self.id();
                format!("trap \"\" EXIT; probe tr{i}")
            }
            Node::TrapErr(h) => match h {
                ErrHandler::Clobbers => "trap \"probe err_h; true\" ERR".to_string(),
                ErrHandler::Failing => "trap \"probe err_h; simexit 4\" ERR".to_string(),
                ErrHandler::Exits(m) => format!("trap \"probe err_h; exit {m}\" ERR"),
                ErrHandler::SubstFailingE => "set -E\ntrap \"probe errs_b %traps; xh=\\$(simexit 3); probe errs_e\" ERR".to_string(),
                ErrHandler::SourcesFailing => {
                    if !self.files.iter().any(|(n, _)| n == "errh.sh") {
                        // (only the first run of the handler has the failing command, so that a handler that
                        // does re-enter itself does so once, not without end)
                        self.files.push(("errh.sh".to_string(), "if [ -z \"$in_h\" ]; then\nin_h=1\nsimexit 3\nfi\ntrue\n".to_string()));
                    }
                    "trap \"probe errs_b %traps; . ./errh.sh; probe errs_e\" ERR".to_string()
                }
            },
            Node::Term(c) => match c {
                Cause::Exit(Some(n)) => format!("exit {n}"),
                Cause::Exit(None) => "exit".to_string(),
                Cause::Errexit(s) => format!("set -e\nsimexit {s}"),
                Cause::Nounset => "set -u\n: $UNSET_VAR_C16".to_string(),
                Cause::ParamError => ": ${UNSET_VAR_C16?boom}".to_string(),
                Cause::RedirectError => "set -e\n: > /nonexistent_dir_c16/x".to_string(),
                Cause::UnknownCommand => "set -e\nnosuchcmd_c16".to_string(),
                Cause::ErrexitAssign(s) => format!("set -e\nxa=$(simexit {s})"),
                Cause::ErrexitArith => "set -e\n(( 0 ))".to_string(),
                Cause::ErrexitCond => "set -e\n[[ a == b ]]".to_string(),
                Cause::ErrexitAndOrLast(s) => format!("set -e\ntrue && simexit {s}"),
                Cause::BangExit(n) => format!("! exit {n}"),
                Cause::Exec(n) => format!("exec xexit {n}"),
                // (one line: with the trap armed and the input ending before the next command,
                // the handler would pre-empt the EXIT handler's own commands - in bash as well)
                Cause::DebugExit(n) => format!("trap \"exit {n}\" DEBUG; :"),
            },
        }
    }
}

pub fn render(case: &Case) -> (String, Vec<(String, String)>) {
    let mut r = Renderer { next: 0, files: vec![] };
    let mut s = r.block(&case.program);
    s.push('\n');
    if case.debug_inert {
        s.insert_str(0, "trap \": dbg\" DEBUG\n");
    }
    (s, r.files)
}

// ---------------------------------------------------------------------------------------
// reference interpreter (mirrors the renderer's id allocation)

#[derive(Clone, Debug, PartialEq)]
enum Known {
    Exactly(u8),
    /// a fatal expansion error: only consistency is required
    SomeFailure,
}

#[derive(Clone)]
struct MState {
    status: u8,
    exit_trap: Option<Handler>,
    errexit: bool,
    depth: u32,
    /// an ERR handler that calls `exit m` is installed
    err_exit: Option<u8>,
    /// an ERR handler whose last command fails with 4 is installed (under errexit the shell
    /// then ends inside the handler with that status, as in bash)
    err_failing: Option<u8>,
    /// the installed failing handler only has its failing command the first time it ever runs
    /// in the session (the sourced file guards it with a variable)
    err_failing_oneshot: bool,
    err_oneshot_used: bool,
    in_func: bool,
}

struct Model {
    next: u32,
    /// expected main-shell probe sequence: (tag, status seen); status None = not predicted
    events: Vec<(String, Option<u8>)>,
    stdout: String,
    /// set when something whose exact effect we do not model has happened
    inexact_status: bool,
    /// the shell replaced itself with `exec`
    execd: bool,
}

enum Flow {
    Continue,
    Terminated(Known),
}

impl Model {
    fn id(&mut self) -> u32 {
        self.next += 1;
        self.next
    }

    fn fail_point(&mut self, st: &mut MState, s: u8) -> Flow {
        st.status = s;
        // the ERR trap fires where errexit would apply; it is not inherited by functions and
        // subshell-like contexts (no errtrace here)
        if s != 0 && !st.in_func && st.depth == 0 {
            if let Some(m) = st.err_exit {
                return Flow::Terminated(Known::Exactly(m));
            }
            if let Some(hs) = st.err_failing {
                let fails_now = !st.err_failing_oneshot || !st.err_oneshot_used;
                if st.err_failing_oneshot {
                    st.err_oneshot_used = true;
                }
                if fails_now && st.errexit {
                    return Flow::Terminated(Known::Exactly(hs));
                }
            }
        }
        if s != 0 && st.errexit {
            return Flow::Terminated(Known::Exactly(s));
        }
        Flow::Continue
    }

    fn block(&mut self, nodes: &[Node], st: &mut MState, record: bool, capture: bool) -> Flow {
        if nodes.is_empty() {
            st.status = 0;
        }
        for n in nodes {
            if let Flow::Terminated(k) = self.node(n, st, record, capture) {
                return Flow::Terminated(k);
            }
        }
        Flow::Continue
    }

    fn node(&mut self, n: &Node, st: &mut MState, record: bool, capture: bool) -> Flow {
        match n {
            Node::Probe => {
                let i = self.id();
                if record {
                    let seen = if self.inexact_status { None } else { Some(st.status) };
                    self.events.push((format!("p{i}"), seen));
                }
                st.status = 0;
                Flow::Continue
            }
            Node::Out => {
                let i = self.id();
                if !capture {
                    self.stdout.push_str(&format!("o{i}\n"));
                }
                st.status = 0;
                Flow::Continue
            }
            Node::Status(s) => self.fail_point(st, *s),
            Node::If(b) => {
                st.status = 0;
                self.block(b, st, record, capture)
            }
            Node::For(k, b) => {
                let _ = self.id();
                // ids inside the body are allocated once (rendering), but executed k times
                let save = self.next;
                let mut last = self.next;
                if *k == 0 {
                    st.status = 0;
                }
                for _ in 0..*k {
                    self.next = save;
                    if let Flow::Terminated(x) = self.block(b, st, record, capture) {
                        return Flow::Terminated(x);
                    }
                    last = self.next;
                }
                if *k == 0 {
                    // still consume the ids of the body
                    let mut scratch = Model { next: save, events: vec![], stdout: String::new(), inexact_status: false, execd: false };
                    let mut s2 = st.clone();
                    let _ = scratch.block(b, &mut s2, false, true);
                    last = scratch.next;
                }
                self.next = last;
                Flow::Continue
            }
            Node::Func(b) => {
                let _ = self.id();
                // the function definition is itself a command that succeeds
                st.status = 0;
                let was_in_func = st.in_func;
                st.in_func = true;
                let f = self.block(b, st, record, capture);
                st.in_func = was_in_func;
                if let Flow::Terminated(k) = f {
                    return Flow::Terminated(k);
                }
                let s = st.status;
                self.fail_point(st, s)
            }
            Node::Eval(b) | Node::Brace(b) | Node::CaseArm(b) => self.block(b, st, record, capture),
            Node::WhileRead(b) => {
                // the loop condition (`read`) succeeded
                st.status = 0;
                self.block(b, st, record, capture)
            }
            Node::StatusVia(v) => match v {
                Via::Assign(s) | Via::AndOrLast(s) => self.fail_point(st, *s),
                Via::Arith | Via::Cond => self.fail_point(st, 1),
                Via::Bang => {
                    st.status = 1;
                    Flow::Continue
                }
                Via::OrRescued(_) | Via::CompgenMissing | Via::BgJobError => {
                    st.status = 0;
                    Flow::Continue
                }
            },
            Node::Source(b) => {
                let _ = self.id();
                self.block(b, st, record, capture)
            }
            Node::Subshell(b) => {
                let mut sub = st.clone();
                sub.exit_trap = None;
                sub.err_exit = None;
                sub.err_failing = None;
                sub.depth += 1;
                // probes inside run at depth > 0: not part of the main sequence
                let f = self.block(b, &mut sub, false, capture);
                let s = match f {
                    Flow::Terminated(Known::Exactly(s)) => s,
                    Flow::Terminated(Known::SomeFailure) => {
                        self.inexact_status = true;
                        1
                    }
                    Flow::Continue => sub.status,
                };
                self.fail_point(st, s)
            }
            Node::CmdSubst(b) => {
                let _ = self.id();
                let mut sub = st.clone();
                sub.exit_trap = None;
                sub.err_exit = None;
                sub.err_failing = None;
                sub.errexit = false;
                sub.depth += 1;
                let f = self.block(b, &mut sub, false, true);
                let s = match f {
                    Flow::Terminated(Known::Exactly(s)) => s,
                    Flow::Terminated(Known::SomeFailure) => {
                        self.inexact_status = true;
                        1
                    }
                    Flow::Continue => sub.status,
                };
                self.fail_point(st, s)
            }
            Node::Bg(b) => {
                let mut sub = st.clone();
                sub.exit_trap = None;
                sub.err_exit = None;
                sub.err_failing = None;
                sub.depth += 1;
                let _ = self.block(b, &mut sub, false, capture);
                st.status = 0;
                Flow::Continue
            }
            Node::TrapExit(h) => {
                let i = self.id();
                st.exit_trap = Some(h.clone());
                st.status = 0;
                if record {
                    self.events.push((format!("ts{i}"), Some(0)));
                }
                Flow::Continue
            }
            Node::TrapExitRemove | Node::TrapExitIgnore => {
                let i = self.id();
                st.exit_trap = None;
                st.status = 0;
                if record {
                    self.events.push((format!("tr{i}"), Some(0)));
                }
                Flow::Continue
            }
            Node::TrapErr(h) => {
                st.status = 0;
                if st.depth == 0 {
                    st.err_exit = if let ErrHandler::Exits(m) = h { Some(*m) } else { None };
                    st.err_failing = match h {
                        ErrHandler::Failing => Some(4),
                        ErrHandler::SourcesFailing | ErrHandler::SubstFailingE => Some(3),
                        _ => None,
                    };
                    st.err_failing_oneshot = *h == ErrHandler::SourcesFailing;
                }
                Flow::Continue
            }
            Node::Term(c) => match c {
                Cause::Exit(Some(n)) | Cause::BangExit(n) | Cause::DebugExit(n) => Flow::Terminated(Known::Exactly(*n)),
                Cause::Exec(n) => {
                    self.execd = true;
                    Flow::Terminated(Known::Exactly(*n))
                }
                Cause::Exit(None) => {
                    if self.inexact_status {
                        Flow::Terminated(Known::SomeFailure)
                    } else {
                        Flow::Terminated(Known::Exactly(st.status))
                    }
                }
                Cause::Errexit(s) => {
                    st.errexit = true;
                    st.status = 0;
                    self.fail_point(st, *s)
                }
                Cause::Nounset | Cause::ParamError => Flow::Terminated(Known::SomeFailure),
                Cause::RedirectError => {
                    st.errexit = true;
                    self.fail_point(st, 1)
                }
                Cause::UnknownCommand => {
                    st.errexit = true;
                    self.fail_point(st, 127)
                }
                Cause::ErrexitAssign(s) | Cause::ErrexitAndOrLast(s) => {
                    st.errexit = true;
                    self.fail_point(st, *s)
                }
                Cause::ErrexitArith | Cause::ErrexitCond => {
                    st.errexit = true;
                    self.fail_point(st, 1)
                }
            },
        }
    }
}

pub struct Expected {
    pub events: Vec<(String, Option<u8>)>,
    pub stdout: String,
    /// terminating status before the handler: None = not predicted exactly
    pub term_status: Option<u8>,
    pub handler: Option<Handler>,
    pub errexit_at_end: bool,
}

pub fn expected(case: &Case) -> Expected {
    let mut m = Model { next: 0, events: vec![], stdout: String::new(), inexact_status: false, execd: false };
    let mut st = MState { status: 0, exit_trap: None, errexit: false, depth: 0, err_exit: None, err_failing: None, err_failing_oneshot: false, err_oneshot_used: false, in_func: false };
    let f = m.block(&case.program, &mut st, true, false);
    let term_status = match f {
        Flow::Terminated(Known::Exactly(s)) => Some(s),
        Flow::Terminated(Known::SomeFailure) => None,
        Flow::Continue => {
            if m.inexact_status {
                None
            } else {
                Some(st.status)
            }
        }
    };
    let mut stdout = m.stdout.clone();
    if m.execd {
        st.exit_trap = None;
    }
    if st.exit_trap == Some(Handler::Output) {
        stdout.push_str("bye\n");
    }
    Expected { events: m.events, stdout, term_status, handler: st.exit_trap, errexit_at_end: st.errexit }
}

// ---------------------------------------------------------------------------------------
// generation

fn gen_block(rng: &mut Rng, depth: u32, main_ctx: bool, in_eval: bool, budget: &mut i32, term: &mut bool) -> Vec<Node> {
    gen_block2(rng, depth, main_ctx, in_eval, false, budget, term)
}

fn gen_block2(rng: &mut Rng, depth: u32, main_ctx: bool, in_eval: bool, in_func: bool, budget: &mut i32, term: &mut bool) -> Vec<Node> {
    let n = rng.range(1, 3);
    let mut out = vec![];
    for _ in 0..n {
        if *budget <= 0 {
            break;
        }
        *budget -= 1;
        let pick = rng.below(if depth >= 3 { 8 } else { 22 });
        let node = match pick {
            0..=2 => Node::Probe,
            3 => Node::Out,
            4 => {
                if rng.below(3) == 0 {
                    // (Via::Bang is not generated: side finding, brush applies errexit and the ERR
                    // trap to a compound command whose status came from a `!` pipeline)
                    Node::StatusVia(match *rng.pick(&[0u64, 1, 2, 3, 5, 6, 7]) {
                        6 => Via::CompgenMissing,
                        7 => Via::BgJobError,
                        0 => Via::Assign(*rng.pick(&[0u8, 3, 7])),
                        1 => Via::Arith,
                        2 => Via::Cond,
                        3 => Via::AndOrLast(*rng.pick(&[0u8, 3])),
                        4 => Via::Bang,
                        _ => Via::OrRescued(*rng.pick(&[1u8, 3])),
                    })
                } else {
                    Node::Status(*rng.pick(&[0u8, 1, 3, 7]))
                }
            }
            5 if main_ctx => Node::TrapExit(match rng.below(8) {
                0 => Handler::Failing,
                1 => Handler::CallsFunction,
                2 => Handler::RemovesItself,
                3 => Handler::Exits(*rng.pick(&[0u8, 6, 9])),
                4 => Handler::Output,
                5 if !in_eval => Handler::ReinstallsItself,
                _ => Handler::ProbeOnly,
            }),
            6 if main_ctx && !(in_func && rng.below(1) == 0) => {
                if rng.below(3) == 0 {
                    if rng.below(3) == 0 { Node::TrapExitIgnore } else { Node::TrapExitRemove }
                } else {
                    Node::TrapErr(match rng.below(7) {
                        5 => ErrHandler::SourcesFailing,
                        6 => ErrHandler::SubstFailingE,
                        0..=1 => ErrHandler::Clobbers,
                        2..=3 => ErrHandler::Failing,
                        _ => ErrHandler::Exits(*rng.pick(&[0u8, 8, 9])),
                    })
                }
            }
            7 if main_ctx && !*term && rng.below(3) == 0 => {
                *term = true;
                Node::Term(match rng.below(15) {
                    12 => Cause::Exec(*rng.pick(&[0u8, 3, 7])),
                    13 if !in_func => Cause::DebugExit(*rng.pick(&[0u8, 5, 15])),
                    8 => Cause::ErrexitAssign(*rng.pick(&[1u8, 3])),
                    9 => match rng.below(2) { 0 => Cause::ErrexitArith, _ => Cause::ErrexitCond },
                    10 => Cause::ErrexitAndOrLast(*rng.pick(&[1u8, 3])),
                    11 => Cause::BangExit(*rng.pick(&[0u8, 3, 4])),
                    0..=2 => Cause::Exit(Some(*rng.pick(&[0u8, 2, 4, 77]))),
                    3 => Cause::Exit(None),
                    4 => Cause::Errexit(*rng.pick(&[1u8, 3])),
                    5 => Cause::Nounset,
                    6 => Cause::ParamError,
                    7 => Cause::RedirectError,
                    _ => Cause::UnknownCommand,
                })
            }
            8 => Node::If(gen_block2(rng, depth + 1, main_ctx, in_eval, in_func, budget, term)),
            9 => Node::For(rng.range(1, 2) as u8, gen_block2(rng, depth + 1, main_ctx, in_eval, in_func, budget, term)),
            10..=11 => Node::Func(gen_block2(rng, depth + 1, main_ctx, in_eval, true, budget, term)),
            12 if !in_eval => Node::Eval(gen_block2(rng, depth + 1, main_ctx, true, in_func, budget, term)),
            13 => Node::Source(gen_block2(rng, depth + 1, main_ctx, in_eval, in_func, budget, term)),
            14 => Node::Brace(gen_block2(rng, depth + 1, main_ctx, in_eval, in_func, budget, term)),
            18 if main_ctx => Node::CaseArm(gen_block2(rng, depth + 1, main_ctx, in_eval, in_func, budget, term)),
            19 if main_ctx => Node::WhileRead(gen_block2(rng, depth + 1, main_ctx, in_eval, in_func, budget, term)),
            15 => {
                let mut t = true; // no real termination inside; `exit` there ends the subshell only
                let mut b = gen_block(rng, depth + 1, false, in_eval, budget, &mut t);
                if rng.below(3) == 0 {
                    b.push(Node::Term(Cause::Exit(Some(*rng.pick(&[0u8, 5])))));
                }
                Node::Subshell(b)
            }
            16 => {
                let mut t = true;
                let mut b = gen_block(rng, depth + 1, false, in_eval, budget, &mut t);
                if rng.below(3) == 0 {
                    b.push(Node::Term(Cause::Exit(Some(*rng.pick(&[0u8, 6])))));
                }
                Node::CmdSubst(b)
            }
            17 => {
                let mut b = vec![Node::Probe];
                if rng.below(2) == 0 {
                    b.push(Node::Term(Cause::Exit(Some(3))));
                }
                Node::Bg(b)
            }
            _ => Node::Probe,
        };
        let stop = matches!(node, Node::Term(_));
        out.push(node);
        if stop && main_ctx {
            break;
        }
    }
    if out.is_empty() {
        out.push(Node::Probe);
    }
    out
}

pub struct C16;

fn fnv(s: &str) -> u64 {
    let mut h = 0xcbf2_9ce4_8422_2325u64;
    for b in s.bytes() {
        h ^= b as u64;
        h = h.wrapping_mul(0x0000_0100_0000_01B3);
    }
    h
}

impl C16 {
    fn gen_case(&self, seed: u64, tier: Tier) -> Case {
        let mut rng = Rng::new(seed);
        let faults = rng.below(3) == 0;
        let class = if faults { "fault-enumeration" } else { "fault-free" }.to_string();
        let mut budget = if tier == Tier::Thorough { 15 } else { 11 };
        let mut term = false;
        let mut program = vec![];
        // make most programs carry a trap early
        if rng.below(5) != 0 {
            program.push(Node::TrapExit(match rng.below(7) {
                0 => Handler::Failing,
                1 => Handler::CallsFunction,
                2 => Handler::Exits(*rng.pick(&[0u8, 6, 9])),
                3 => Handler::Output,
                4 => Handler::RemovesItself,
                _ => Handler::ProbeOnly,
            }));
        }
        while budget > 0 && !term {
            let mut b = gen_block(&mut rng, 0, true, false, &mut budget, &mut term);
            program.append(&mut b);
            if rng.below(3) == 0 {
                break;
            }
        }
        // an ERR handler that exits is kept apart from the known shapes (ERR firing for `exit n`,
        // `exit` inside the EXIT handler) and from handlers that fail on purpose
        fn has_err_failing(ns: &[Node]) -> bool {
            ns.iter().any(|n| match n {
                Node::TrapErr(ErrHandler::Exits(_) | ErrHandler::Failing | ErrHandler::SourcesFailing | ErrHandler::SubstFailingE) => true,
                Node::If(b) | Node::Eval(b) | Node::Brace(b) | Node::CaseArm(b) | Node::WhileRead(b) | Node::Func(b) | Node::Source(b) | Node::For(_, b) | Node::Subshell(b) | Node::CmdSubst(b) | Node::Bg(b) => has_err_failing(b),
                _ => false,
            })
        }
        // (known finding: the ERR trap also fires for exit-type control flow, so a shell that
        // is leaving a function because of errexit would run the handler at the call site)
        fn tame_in_funcs(ns: &mut [Node], in_func: bool) {
            for n in ns.iter_mut() {
                match n {
                    Node::Term(Cause::Errexit(_) | Cause::RedirectError | Cause::UnknownCommand | Cause::Nounset | Cause::ParamError | Cause::ErrexitAssign(_) | Cause::ErrexitArith | Cause::ErrexitCond | Cause::ErrexitAndOrLast(_)) if in_func => *n = Node::Probe,
                    Node::Func(b) => tame_in_funcs(b, true),
                    Node::If(b) | Node::Eval(b) | Node::Brace(b) | Node::CaseArm(b) | Node::WhileRead(b) | Node::Source(b) | Node::For(_, b) | Node::Subshell(b) | Node::CmdSubst(b) | Node::Bg(b) => tame_in_funcs(b, in_func),
                    _ => {}
                }
            }
        }
        if has_err_failing(&program) {
            tame_in_funcs(&mut program, false);
        }
        // `set -E` makes functions, subshells and substitutions inherit the ERR trap, which the
        // reference interpreter does not model: programs that turn it on are kept flat
        fn has_errtrace(ns: &[Node]) -> bool {
            ns.iter().any(|n| match n {
                Node::TrapErr(ErrHandler::SubstFailingE) => true,
                Node::If(b) | Node::Eval(b) | Node::Brace(b) | Node::CaseArm(b) | Node::WhileRead(b) | Node::Func(b) | Node::Source(b) | Node::For(_, b) | Node::Subshell(b) | Node::CmdSubst(b) | Node::Bg(b) => has_errtrace(b),
                _ => false,
            })
        }
        fn flatten(ns: &mut Vec<Node>) {
            for n in ns.iter_mut() {
                match n {
                    Node::Func(b) => {
                        flatten(b);
                        *n = Node::Brace(std::mem::take(b));
                    }
                    Node::Subshell(_) | Node::CmdSubst(_) | Node::Bg(_) => *n = Node::Probe,
                    Node::StatusVia(Via::Assign(_) | Via::BgJobError) => *n = Node::Probe,
                    Node::Term(Cause::ErrexitAssign(_)) => *n = Node::Term(Cause::Errexit(3)),
                    Node::If(b) | Node::Eval(b) | Node::Brace(b) | Node::CaseArm(b) | Node::WhileRead(b) | Node::Source(b) | Node::For(_, b) => flatten(b),
                    _ => {}
                }
            }
        }
        if has_errtrace(&program) {
            flatten(&mut program);
        }
        fn has_err_exit(ns: &[Node]) -> bool {
            ns.iter().any(|n| match n {
                Node::TrapErr(ErrHandler::Exits(_)) => true,
                Node::If(b) | Node::Eval(b) | Node::Brace(b) | Node::CaseArm(b) | Node::WhileRead(b) | Node::Func(b) | Node::Source(b) | Node::For(_, b) | Node::Subshell(b) | Node::CmdSubst(b) | Node::Bg(b) => has_err_exit(b),
                _ => false,
            })
        }
        fn tame(ns: &mut [Node]) {
            for n in ns.iter_mut() {
                match n {
                    Node::Term(Cause::Exit(_)) => *n = Node::Term(Cause::Exit(Some(0))),
                    Node::Term(Cause::BangExit(_)) => *n = Node::Term(Cause::BangExit(0)),
                    Node::Term(Cause::DebugExit(_)) => *n = Node::Term(Cause::DebugExit(0)),
                    Node::TrapExit(Handler::Exits(_) | Handler::Failing) => *n = Node::TrapExit(Handler::ProbeOnly),
                    Node::If(b) | Node::Eval(b) | Node::Brace(b) | Node::CaseArm(b) | Node::WhileRead(b) | Node::Func(b) | Node::Source(b) | Node::For(_, b) | Node::Subshell(b) | Node::CmdSubst(b) | Node::Bg(b) => tame(b),
                    _ => {}
                }
            }
        }
        if has_err_exit(&program) {
            tame(&mut program);
        }
        let front_end = match rng.below(3) {
            0 => FrontEnd::Stdin,
            1 => FrontEnd::ScriptFile,
            _ => FrontEnd::DashC,
        };
        let mut cfg = SimConfig::default();
        cfg.seed = rng.next();
        cfg.capacity = *rng.pick(&[16usize, 65536]);
        cfg.strategy = rng.pick(&[Strategy::RunLong, Strategy::Uniform, Strategy::LowestId, Strategy::HighestId]).clone();
        cfg.budget = 20_000;
        cfg.workers = *rng.pick(&[None, None, Some(1usize)]);
        if front_end == FrontEnd::Stdin {
            cfg.stdin_chunks = match rng.below(3) {
                0 => vec![],
                1 => vec![rng.range(1, 9) as usize],
                _ => vec![rng.range(1, 40) as usize, rng.range(1, 5) as usize],
            };
        }
        let via_entry = rng.below(3) == 0;
        let debug_inert = rng.below(6) == 0;
        Case { class, program, front_end, faults, via_entry, debug_inert, cfg }
    }
}

fn viol(class: &str, detail: String, shape: Option<&str>) -> Violation {
    Violation { class: class.to_string(), detail, known_shape: shape.map(String::from) }
}

fn is_err_tag(t: &str) -> bool {
    t == "err_h" || t == "errs_b" || t == "errs_e"
}

struct Observed {
    /// trap-handler frames on the stack at each `errs_b` probe of the main shell
    errs_b_frames: Vec<usize>,
    main: Vec<(String, u8, u64)>,
    sub_exit_h: usize,
}

fn observe(r: &RunResult) -> Observed {
    let mut main = vec![];
    let mut sub_exit_h = 0;
    let mut errs_b_frames = vec![];
    for e in &r.events {
        if let EventKind::Probe { tag, status, depth, extra, .. } = &e.kind {
            if *depth == 0 && e.pid == 0 {
                if tag == "errs_b" {
                    errs_b_frames.push(extra.first().and_then(|x| x.parse().ok()).unwrap_or(0));
                }
                main.push((tag.clone(), *status, e.seq));
            } else if tag == "exit_h" {
                sub_exit_h += 1;
            }
        }
    }
    Observed { errs_b_frames, main, sub_exit_h }
}

/// The oracle that needs no prediction: applied to every run, with or without faults.
fn observational(case: &Case, r: &RunResult, script: &str, what: &str) -> Option<Violation> {
    match &r.abort {
        Some(Abort::Deadlock { main_done: true, .. }) | None => {}
        Some(a) => return Some(viol("C16/abort", format!("{what}: {a:?}; script={script:?}"), None)),
    }
    let o = observe(r);
    if o.sub_exit_h > 0 {
        return Some(viol("C16/exit-trap/ran-in-subshell", format!("{what}: {} EXIT handler runs inside subshell contexts; script={script:?}", o.sub_exit_h), None));
    }
    // a handler never re-enters itself: while the ERR handler that sources a file with a failing
    // command runs, that failure must not start the ERR handler again (which would show as a
    // second ERR handler frame on the call stack). An EXIT handler frame may be underneath.
    let mut bi = 0usize;
    for (tag, _, _) in &o.main {
        if tag == "errs_b" {
            let n = o.errs_b_frames.get(bi).copied().unwrap_or(0);
            bi += 1;
            if n > 1 {
                return Some(viol("C16/handler/re-entered", format!("{what}: the ERR handler was entered again while it was running ({n} ERR-handler frames on the stack); main probes {:?}; script={script:?}", o.main.iter().map(|x| x.0.as_str()).collect::<Vec<_>>()), None));
            }
        }
    }
    // which handler is registered when the shell terminates: the last trap operation that ran
    let mut registered: Option<String> = None;
    for (tag, _, _) in &o.main {
        if tag.starts_with("ts") {
            registered = Some(tag.clone());
        } else if tag.starts_with("tr") {
            registered = None;
        } else if tag == "exit_h" {
            break;
        }
    }
    let exits: Vec<&(String, u8, u64)> = o.main.iter().filter(|(t, _, _)| t == "exit_h").collect();
    // (`exec` replaces the shell without running the handler)
    let want = if registered.is_some() && !r.exec_replaced { 1 } else { 0 };
    // a read *error* on the script source is outside the statement: probe only
    let stdin_error = case.cfg.faults.iter().any(|f| matches!(f, Fault::StdinError { .. }));
    if stdin_error {
        return None;
    }
    if exits.len() != want {
        let class = if exits.len() > want { "C16/exit-trap/ran-more-than-once" } else { "C16/exit-trap/not-run" };
        return Some(viol(
            class,
            format!("{what}: EXIT handler ran {} times, want {want} (registered by {registered:?}); main probes {:?}; status={:?}; stderr={:?}; script={script:?}", exits.len(), o.main.iter().map(|x| x.0.as_str()).collect::<Vec<_>>(), r.status, String::from_utf8_lossy(&r.err)),
            None,
        ));
    }
    if let Some(ex) = exits.first() {
        // last main-shell probe
        // (a failing command inside the handler may fire the ERR trap from within it)
        let handler_kind = handler_of(case, &registered);
        let out_fault = case.cfg.faults.iter().any(|f| matches!(f, Fault::SinkFrom { sink: 1, .. }));
        let handler_may_fail = matches!(handler_kind, Some(Handler::Failing)) || (matches!(handler_kind, Some(Handler::Output)) && out_fault);
        let tail_ok = |tag: &str| is_err_tag(tag) && handler_may_fail;
        if let Some(last) = o.main.iter().rev().find(|(t, _, _)| !tail_ok(t)) {
            if last.2 != ex.2 {
                // known shape: the ERR trap fires for the EXIT handler's own `exit m` (m != 0)
                let shape = if is_err_tag(&last.0) && matches!(handler_kind, Some(Handler::Exits(m)) if m != 0) { Some("err-trap-fires-on-exit-n") } else { None };
                return Some(viol("C16/exit-trap/not-last", format!("{what}: probe {} ran after the EXIT handler; script={script:?}", last.0), shape));
            }
        }
        // no foreground output after the handler other than its own
        let handler_output = matches!(handler_of(case, &registered), Some(Handler::Output));
        let later_out = r
            .events
            .iter()
            .filter(|e| e.seq > ex.2 && e.pid == 0)
            .filter(|e| matches!(e.kind, EventKind::SinkWrite { sink: 1, .. }))
            .count();
        if later_out > usize::from(handler_output) {
            return Some(viol("C16/exit-trap/output-after-handler", format!("{what}: {later_out} stdout writes after the EXIT handler; script={script:?}"), None));
        }
        // the process ends with the status the handler saw, unless the handler exits itself
        if let Some(status) = r.status {
            match handler_of(case, &registered) {
                Some(Handler::Exits(m)) => {
                    if status != m {
                        return Some(viol(
                            "C16/status/handler-exit-ignored",
                            format!("{what}: handler called `exit {m}` but the shell ended with {status} (handler saw {}); script={script:?}", ex.1),
                            Some("exit-in-exit-handler-ignored"),
                        ));
                    }
                }
                Some(Handler::Failing) => {
                    // under errexit bash ends with the failing handler command's status
                    if status != ex.1 && status != 5 {
                        return Some(viol("C16/status/not-terminating-status", format!("{what}: shell ended with {status}, EXIT handler saw {}; script={script:?}", ex.1), None));
                    }
                }
                Some(Handler::Output) if out_fault && (status == 141 || status == 1) => {
                    // the handler's own `echo` failed: EPIPE ends the shell from within the
                    // handler (141); another write error fails the handler's last command, which
                    // under errexit ends the shell with that command's status
                }
                _ => {
                    if status != ex.1 {
                        return Some(viol("C16/status/not-terminating-status", format!("{what}: shell ended with {status}, EXIT handler saw $?={}; script={script:?}", ex.1), None));
                    }
                }
            }
        }
    }
    None
}

/// Find the handler kind registered by the trap statement whose marker probe is `marker`.
fn handler_of(case: &Case, marker: &Option<String>) -> Option<Handler> {
    let want: u32 = marker.as_ref()?.strip_prefix("ts")?.parse().ok()?;
    fn walk(nodes: &[Node], next: &mut u32, want: u32) -> Option<Handler> {
        for n in nodes {
            match n {
                Node::Probe | Node::Out => {
                    *next += 1;
                }
                Node::Status(_) | Node::StatusVia(_) | Node::TrapErr(_) | Node::Term(_) => {}
                Node::If(b) | Node::Eval(b) | Node::Brace(b) | Node::CaseArm(b) | Node::WhileRead(b) | Node::Subshell(b) | Node::Bg(b) => {
                    if let Some(h) = walk(b, next, want) {
                        return Some(h);
                    }
                }
                Node::For(_, b) | Node::Func(b) | Node::Source(b) | Node::CmdSubst(b) => {
                    *next += 1;
                    if let Some(h) = walk(b, next, want) {
                        return Some(h);
                    }
                }
                Node::TrapExit(h) => {
                    *next += 1;
                    if *next == want {
                        return Some(h.clone());
                    }
                }
                Node::TrapExitRemove | Node::TrapExitIgnore => {
                    *next += 1;
                }
            }
        }
        None
    }
    let mut next = 0;
    walk(&case.program, &mut next, want)
}

pub fn judge(case: &Case) -> Verdict {
    let (script, files) = render(case);
    let exp = expected(case);
    let mut v = Verdict::default();
    v.class_name = case.class.clone();
    v.case_key = fnv(&format!("{script}|{:?}", case.front_end));
    v.nontrivial = exp.handler.is_some();

    let mk = |cfg: &SimConfig| {
        let mut spec = RunSpec::new(script.clone(), case.front_end.clone(), cfg.clone());
        spec.files = files.clone();
        spec.needs_dir = true;
        spec.via_entry = case.via_entry;
        spec
    };
    let r = runner::run(&mk(&case.cfg));
    v.hashes.push(r.loghash);
    v.shapes.push(r.shapehash);
    v.runs += 1;
    v.decisions += r.decisions;
    v.stats.merge(&r.stats);
    if r.harness_error.is_some() {
        v.harness_error = r.harness_error.clone();
        return v;
    }
    if let Some(x) = observational(case, &r, &script, "fault-free") {
        v.violation = Some(x);
        return v;
    }
    // exact model
    let o = observe(&r);
    let got: Vec<(String, u8)> = o.main.iter().filter(|(t, _, _)| !is_err_tag(t) && t != "exit_h").map(|(t, s, _)| (t.clone(), *s)).collect();
    let want = &exp.events;
    let tags_equal = got.len() == want.len() && got.iter().zip(want.iter()).all(|(g, w)| g.0 == w.0);
    if !tags_equal {
        v.violation = Some(viol(
            "C16/model/probe-sequence",
            format!("main-shell probes {:?}, model {:?}; status={:?} stderr={:?}; script={script:?}", got.iter().map(|g| g.0.as_str()).collect::<Vec<_>>(), want.iter().map(|w| w.0.as_str()).collect::<Vec<_>>(), r.status, String::from_utf8_lossy(&r.err)),
            None,
        ));
        return v;
    }
    for (g, w) in got.iter().zip(want.iter()) {
        if let Some(ws) = w.1 {
            if g.1 != ws {
                v.violation = Some(viol(
                    "C16/status/clobbered",
                    format!("probe {} saw $?={}, model {ws} (an ERR/EXIT handler or construct changed the interrupted flow's status); script={script:?}", g.0, g.1),
                    None,
                ));
                return v;
            }
        }
    }
    if let Some(ts) = exp.term_status {
        if let Some(ex) = o.main.iter().find(|(t, _, _)| t == "exit_h") {
            if ex.1 != ts {
                v.violation = Some(viol("C16/status/handler-saw-wrong-status", format!("EXIT handler saw $?={}, model {ts}; script={script:?}", ex.1), None));
                return v;
            }
        }
        let final_want: Vec<u8> = match &exp.handler {
            Some(Handler::Exits(m)) => vec![*m],
            Some(Handler::Failing) if exp.errexit_at_end => vec![ts, 5],
            _ => vec![ts],
        };
        if let Some(status) = r.status {
            if !final_want.contains(&status) {
                let shape = if matches!(exp.handler, Some(Handler::Exits(_))) { Some("exit-in-exit-handler-ignored") } else { None };
                let class = if shape.is_some() { "C16/status/handler-exit-ignored" } else { "C16/status/final" };
                v.violation = Some(viol(class, format!("shell ended with {status}, model {final_want:?}; script={script:?}"), shape));
                return v;
            }
        }
    }
    if String::from_utf8_lossy(&r.out) != exp.stdout {
        v.violation = Some(viol("C16/model/stdout", format!("stdout {:?}, model {:?}; script={script:?}", String::from_utf8_lossy(&r.out), exp.stdout), None));
        return v;
    }
    // reach probes
    let errs = o.main.iter().filter(|(t, _, _)| is_err_tag(t)).count();
    if errs > 0 {
        v.stats.probe("err_handler_fired");
    }
    if exp.handler.is_some() {
        v.stats.probe("exit_handler_registered_at_end");
    }

    // fault enumeration: every position of every fault kind the fault-free run performed
    if case.faults {
        let out_writes = r.events.iter().filter(|e| matches!(e.kind, EventKind::SinkWrite { sink: 1, .. })).count() as u64;
        let err_writes = r.events.iter().filter(|e| matches!(e.kind, EventKind::SinkWrite { sink: 2, .. })).count() as u64;
        let opens = r.stats.probes.get("opens").copied().unwrap_or(0);
        let _ = opens;
        let mut plans: Vec<Vec<Fault>> = vec![];
        for k in 0..out_writes.min(12) {
            for e in [ErrKind::Epipe, ErrKind::Enospc, ErrKind::Eio] {
                plans.push(vec![Fault::SinkFrom { sink: 1, at: k, err: e }]);
            }
        }
        for k in 0..err_writes.min(6) {
            plans.push(vec![Fault::SinkFrom { sink: 2, at: k, err: ErrKind::Epipe }]);
            plans.push(vec![Fault::SinkFrom { sink: 2, at: k, err: ErrKind::Eio }]);
            plans.push(vec![Fault::SinkFrom { sink: 2, at: k, err: ErrKind::Enospc }]);
        }
        for k in 0..r.opens.min(8) {
            for e in [ErrKind::Enoent, ErrKind::Emfile, ErrKind::Eacces] {
                plans.push(vec![Fault::Open { at: k, err: e }]);
            }
        }
        for k in 0..(r.pipes as u64).min(6) {
            plans.push(vec![Fault::Pipe { at: k, err: ErrKind::Emfile }]);
        }
        // reads of sourced files (the script source itself is read before any trap exists)
        for k in 1..r.file_reads.min(6) {
            plans.push(vec![Fault::FileRead { at: k, err: ErrKind::Eio }]);
        }
        if case.front_end == FrontEnd::Stdin {
            for k in 0..r.stdin_reads.min(10) {
                plans.push(vec![Fault::StdinEintr { at: k }]);
                plans.push(vec![Fault::StdinError { at: k }]);
            }
        }
        for plan in plans {
            let mut cfg = case.cfg.clone();
            cfg.faults = plan.clone();
            let rf = runner::run(&mk(&cfg));
            v.hashes.push(rf.loghash);
            v.shapes.push(rf.shapehash);
            v.runs += 1;
            v.decisions += rf.decisions;
            v.stats.merge(&rf.stats);
            if rf.harness_error.is_some() {
                v.harness_error = rf.harness_error.clone();
                return v;
            }
            let mut c2 = case.clone();
            c2.cfg = cfg;
            if let Some(x) = observational(&c2, &rf, &script, &format!("with {plan:?}")) {
                v.violation = Some(x);
                return v;
            }
            // a failing *diagnostic* write (stderr) and an interrupted, retried stdin read must
            // not change what the program does: same probes, statuses, output and final status
            // (EPIPE on stderr is excluded: a diagnostic written to a closed pipe would raise SIGPIPE)
            let transparent = plan.iter().all(|f| matches!(f, Fault::SinkFrom { sink: 2, err: ErrKind::Eio | ErrKind::Enospc, .. } | Fault::StdinEintr { .. }));
            if transparent {
                let of = observe(&rf);
                let a: Vec<(String, u8)> = o.main.iter().map(|(t, s, _)| (t.clone(), *s)).collect();
                let b: Vec<(String, u8)> = of.main.iter().map(|(t, s, _)| (t.clone(), *s)).collect();
                if a != b || rf.status != r.status || rf.out != r.out {
                    v.violation = Some(viol(
                        "C16/fault-changes-control-flow",
                        format!("with {plan:?}: probes {:?} status {:?}, fault-free probes {:?} status {:?}; script={script:?}", b, rf.status, a, r.status),
                        None,
                    ));
                    return v;
                }
            }
        }
        // stdin ending at every line boundary
        if case.front_end == FrontEnd::Stdin {
            let lines: Vec<&str> = script.split_inclusive('\n').collect();
            for cut in 1..lines.len() {
                let prefix: String = lines[..cut].concat();
                let mut spec = mk(&case.cfg);
                spec.script = prefix.clone();
                let rf = runner::run(&spec);
                v.runs += 1;
                v.decisions += rf.decisions;
                v.hashes.push(rf.loghash);
                v.stats.fire("stdin_eof_at_line_boundary");
                if let Some(x) = observational(case, &rf, &prefix, &format!("stdin ends after line {cut}")) {
                    v.violation = Some(x);
                    return v;
                }
            }
        }
    }
    v
}

impl Check for C16 {
    fn id(&self) -> &'static str {
        "C16"
    }
    fn level(&self) -> &'static str {
        "fault_enumeration"
    }
    fn engine(&self) -> &'static str {
        "exittrap"
    }
    fn generate(&self, seed: u64, tier: Tier) -> Value {
        serde_json::to_value(self.gen_case(seed, tier)).unwrap_or(Value::Null)
    }
    fn execute(&self, case: &Value) -> Verdict {
        match serde_json::from_value::<Case>(case.clone()) {
            Ok(c) => judge(&c),
            Err(e) => Verdict { harness_error: Some(format!("bad case: {e}")), ..Default::default() },
        }
    }
    fn shrink(&self, case: &Value) -> Vec<Value> {
        let Ok(c) = serde_json::from_value::<Case>(case.clone()) else { return vec![] };
        let mut out: Vec<Case> = vec![];
        fn variants(nodes: &[Node]) -> Vec<Vec<Node>> {
            let mut res = vec![];
            for i in 0..nodes.len() {
                // drop node i
                let mut d = nodes.to_vec();
                d.remove(i);
                res.push(d);
                // replace a container by its body, or shrink inside it
                let inner: Option<&Vec<Node>> = match &nodes[i] {
                    Node::If(b) | Node::Eval(b) | Node::Brace(b) | Node::CaseArm(b) | Node::WhileRead(b) | Node::Func(b) | Node::Source(b) | Node::For(_, b) => Some(b),
                    _ => None,
                };
                if let Some(b) = inner {
                    let mut d = nodes.to_vec();
                    d.splice(i..=i, b.iter().cloned());
                    res.push(d);
                }
                let rebuild = |n: &Node, nb: Vec<Node>| -> Node {
                    match n {
                        Node::If(_) => Node::If(nb),
                        Node::Eval(_) => Node::Eval(nb),
                        Node::Brace(_) => Node::Brace(nb),
                        Node::CaseArm(_) => Node::CaseArm(nb),
                        Node::WhileRead(_) => Node::WhileRead(nb),
                        Node::Func(_) => Node::Func(nb),
                        Node::Source(_) => Node::Source(nb),
                        Node::For(k, _) => Node::For(*k, nb),
                        Node::Subshell(_) => Node::Subshell(nb),
                        Node::CmdSubst(_) => Node::CmdSubst(nb),
                        Node::Bg(_) => Node::Bg(nb),
                        other => other.clone(),
                    }
                };
                let body: Option<&Vec<Node>> = match &nodes[i] {
                    Node::If(b) | Node::Eval(b) | Node::Brace(b) | Node::CaseArm(b) | Node::WhileRead(b) | Node::Func(b) | Node::Source(b) | Node::For(_, b) | Node::Subshell(b) | Node::CmdSubst(b) | Node::Bg(b) => Some(b),
                    _ => None,
                };
                if let Some(b) = body {
                    for nb in variants(b) {
                        if nb.is_empty() {
                            continue;
                        }
                        let mut d = nodes.to_vec();
                        d[i] = rebuild(&nodes[i], nb);
                        res.push(d);
                    }
                }
            }
            res
        }
        for p in variants(&c.program) {
            if p.is_empty() {
                continue;
            }
            let mut d = c.clone();
            d.program = p;
            out.push(d);
        }
        if c.faults {
            let mut d = c.clone();
            d.faults = false;
            out.push(d);
        }
        if c.debug_inert {
            let mut d = c.clone();
            d.debug_inert = false;
            out.push(d);
        }
        if c.front_end != FrontEnd::DashC {
            let mut d = c.clone();
            d.front_end = FrontEnd::DashC;
            d.cfg.stdin_chunks = vec![];
            out.push(d);
        }
        if c.cfg.strategy != Strategy::LowestId {
            let mut d = c.clone();
            d.cfg.strategy = Strategy::LowestId;
            out.push(d);
        }
        out.into_iter().filter_map(|c| serde_json::to_value(c).ok()).collect()
    }
    fn rule(&self) -> String {
        "seeded programs from a control-flow grammar (if/for/function/eval/sourced file/brace group/subshell/command substitution/background job, probes and status-setting leaves; EXIT trap set/replaced/removed at seeded points with handlers that only probe, fail, call a function, remove or reinstall themselves, print, or `exit m`; ERR traps that clobber or fail) with one termination cause planted at a seeded executed step (exit n / exit, errexit, nounset, ${x?}, redirect error, unknown command, end of script), through the -c / script-file / stdin front-ends, one case in six with an inert DEBUG trap set before the program (a second handler nested around every command, including those of the EXIT and ERR handlers); fault-free runs are compared with a reference interpreter (probe sequence, $? at every probe, handler's $?, final status, stdout); in the fault class every position of {stdout/stderr write failing from the k-th on with EPIPE/ENOSPC/EIO, k-th open failing, k-th pipe() failing, stdin EINTR, stdin ending at every line boundary} observed in the fault-free run is injected and judged observationally (handler exactly once iff registered, last, nothing printed after it, final status = status the handler saw unless it exits); non-trivial = an EXIT handler is registered at termination; distinct = distinct (script, front-end)".into()
    }
    fn components(&self) -> Value {
        json!({
            "real": ["brush-core shell/traps.rs (on_exit, invoke_trap_handler), shell/execution.rs (run_script, run_dash_c_command), traps.rs, callstack.rs, interp.rs (ERR trap, errexit)", "brush-interactive interactive_shell.rs run_interactively (stdin front-end)", "brush-builtins trap/exit/eval/./set"],
            "stub": ["brush-shell entry.rs is exercised in a third of the cases (verif_run: argument parsing, instantiate_shell, run_in_shell, returned status); in the others the front-end functions are called directly and the status is the shell's last exit status", "`exec` replacing the shell is not exercised (it would replace the simulator)", "stdout/stderr/stdin -> simulated streams with injected failures"]
        })
    }
    fn assumptions(&self) -> Vec<String> {
        vec![
            "fatal expansion errors (nounset, ${x?}) are judged for consistency only: the status the handler sees equals the final status".into(),
            "a failing last command in the EXIT handler under errexit may end the shell with either the terminating status or the handler command's status".into(),
            "a read error (EIO) on the script source is outside the statement: recorded, not judged".into(),
            "traps registered inside subshell-like contexts are not generated".into(),
        ]
    }
    fn budget_s(&self, tier: Tier) -> u64 {
        match tier {
            Tier::Quick => 40,
            Tier::Thorough => 600,
        }
    }
}
