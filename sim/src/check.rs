//! Generic check driver: seeded exploration across worker processes, fresh-process
//! confirmation, minimisation, replay files, known findings, evidence.

use std::collections::{BTreeMap, HashSet};
use std::io::{BufRead, Write};
use std::path::PathBuf;
use std::time::Instant;

use serde::{Deserialize, Serialize};
use serde_json::{Value, json};

use crate::world::{Stats, splitmix};

#[derive(Clone, Copy, Debug, PartialEq, Serialize, Deserialize)]
pub enum Tier {
    Quick,
    Thorough,
}

#[derive(Clone, Debug, Serialize, Deserialize)]
pub struct Violation {
    /// class signature, e.g. "C11/deadlock/self-owned-reader"
    pub class: String,
    pub detail: String,
    /// identifier of a known-finding shape this violation matches (if any)
    pub known_shape: Option<String>,
}

#[derive(Clone, Debug, Default, Serialize, Deserialize)]
pub struct Verdict {
    pub violation: Option<Violation>,
    /// event-log hashes of all simulated runs of this case (determinism recheck)
    pub hashes: Vec<u64>,
    /// interleaving shape hashes
    pub shapes: Vec<u64>,
    pub nontrivial: bool,
    /// key identifying the generated workload (for distinct counting)
    pub case_key: u64,
    pub stats: Stats,
    pub sim_time: u64,
    pub decisions: u64,
    pub runs: u64,
    pub class_name: String,
    pub harness_error: Option<String>,
    /// observations that are reported but never judged
    pub notes: Vec<String>,
    /// for single-run checks: the decision list of the failing run (participant ids)
    #[serde(default)]
    pub schedule: Vec<u32>,
}

/// One property's workload generator, oracle and shrinker. Cases are JSON values so that the
/// driver, replay files and workers need no per-check types.
pub trait Check: Sync {
    fn id(&self) -> &'static str;
    fn level(&self) -> &'static str;
    fn engine(&self) -> &'static str;
    /// generate the case for `seed` (includes swarm class, workload and simulator config)
    fn generate(&self, seed: u64, tier: Tier) -> Value;
    /// run the case on the real code under the simulator and judge it
    fn execute(&self, case: &Value) -> Verdict;
    /// smaller / simpler candidates, most aggressive first
    fn shrink(&self, case: &Value) -> Vec<Value>;
    /// rule text for the evidence file
    fn rule(&self) -> String;
    /// exhaustive pre-pass cases (run before the seeded ones); default none
    fn exhaustive(&self, _tier: Tier) -> Vec<Value> {
        vec![]
    }
    /// what the exhaustive pre-pass enumerates completely (for the evidence file)
    fn exhaustive_note(&self, _tier: Tier) -> Option<String> {
        None
    }
    fn components(&self) -> Value;
    fn assumptions(&self) -> Vec<String>;
    /// wall-clock budget for exploration in seconds
    fn budget_s(&self, tier: Tier) -> u64 {
        match tier {
            Tier::Quick => 40,
            Tier::Thorough => 600,
        }
    }
    fn max_cases(&self, tier: Tier) -> u64 {
        match tier {
            Tier::Quick => 2_000_000,
            Tier::Thorough => 200_000_000,
        }
    }
}

pub fn seed_for(base: u64, id: &str, i: u64) -> u64 {
    let mut h = splitmix(base);
    for b in id.bytes() {
        h = splitmix(h ^ b as u64);
    }
    splitmix(h ^ i.wrapping_mul(0x9E37_79B9_7F4A_7C15))
}

fn verif_root() -> PathBuf {
    PathBuf::from(std::env::var("VERIF_ROOT").unwrap_or_else(|_| "/verif".into()))
}

// ---------------------------------------------------------------------------------------
// Worker: runs a slice of the seed space and reports one JSON summary line.

#[derive(Default, Serialize, Deserialize)]
pub struct WorkerSummary {
    pub cases: u64,
    pub runs: u64,
    pub decisions: u64,
    pub sim_time: u64,
    pub nontrivial_keys: Vec<u64>,
    pub shapes: Vec<u64>,
    pub stats: Stats,
    pub classes: BTreeMap<String, u64>,
    pub failures: Vec<Value>,
    pub rechecks: u64,
    pub recheck_mismatch: Vec<u64>,
    pub harness_errors: Vec<String>,
    pub samples: Vec<Value>,
    pub notes: BTreeMap<String, u64>,
    pub exhaustive_done: bool,
    pub recheck_hashes: Vec<(u64, Vec<u64>)>,
}

pub fn worker(check: &dyn Check, tier: Tier, base: u64, w: u64, n: u64, secs: u64, max_cases: u64) -> WorkerSummary {
    let start = Instant::now();
    let mut s = WorkerSummary::default();
    let mut keys: HashSet<u64> = HashSet::new();
    let mut shapes: HashSet<u64> = HashSet::new();

    install_watchdog();
    heartbeat(false);
    let cur_path = current_case_path(std::os::unix::process::parent_id(), w);
    if let Some(d) = cur_path.parent() {
        let _ = std::fs::create_dir_all(d);
    }
    let mut handle = |s: &mut WorkerSummary, seed: Option<u64>, case: Value, keys: &mut HashSet<u64>, shapes: &mut HashSet<u64>| {
        let _ = std::fs::write(&cur_path, json!({"seed": seed, "case": case}).to_string());
        heartbeat(true);
        let v = check.execute(&case);
        heartbeat(false);
        s.cases += 1;
        s.runs += v.runs;
        s.decisions += v.decisions;
        s.sim_time += v.sim_time;
        s.stats.merge(&v.stats);
        *s.classes.entry(v.class_name.clone()).or_insert(0) += 1;
        for n in &v.notes {
            *s.notes.entry(n.clone()).or_insert(0) += 1;
        }
        if v.nontrivial {
            keys.insert(v.case_key);
        }
        for sh in &v.shapes {
            if shapes.len() < 2_000_000 {
                shapes.insert(*sh);
            }
        }
        if let Some(e) = &v.harness_error {
            if s.harness_errors.len() < 10 {
                s.harness_errors.push(format!("seed {:?}: {e}", seed));
            }
        }
        if let Some(viol) = &v.violation {
            if s.failures.len() < 40 {
                s.failures.push(json!({"seed": seed, "case": case, "violation": viol}));
            }
        } else if s.samples.len() < 3 && v.nontrivial {
            s.samples.push(json!({"seed": seed, "class": v.class_name, "case": case}));
        }
        // determinism recheck material: 2% of seeded cases
        if let Some(seed) = seed {
            if seed % 50 == 0 && s.recheck_hashes.len() < 200 {
                s.recheck_hashes.push((seed, v.hashes.clone()));
            }
        }
    };

    // exhaustive pre-pass, split across workers
    let ex = check.exhaustive(tier);
    for (i, case) in ex.into_iter().enumerate() {
        if (i as u64) % n != w {
            continue;
        }
        handle(&mut s, None, case, &mut keys, &mut shapes);
    }
    s.exhaustive_done = true;

    let mut i = w;
    while s.cases < max_cases / n.max(1) {
        if start.elapsed().as_secs() >= secs {
            break;
        }
        let seed = seed_for(base, check.id(), i);
        let case = check.generate(seed, tier);
        handle(&mut s, Some(seed), case, &mut keys, &mut shapes);
        i += n;
    }
    s.nontrivial_keys = keys.into_iter().collect();
    s.shapes = shapes.into_iter().collect();
    let _ = std::fs::remove_file(&cur_path);
    s
}

// ---------------------------------------------------------------------------------------
// Known findings

#[derive(Clone, Debug, Deserialize)]
pub struct KnownEntry {
    pub status: String,
    pub property: String,
    #[serde(default)]
    pub shape: String,
    #[serde(default)]
    pub what_fails: String,
}

pub fn load_known() -> Vec<KnownEntry> {
    let p = verif_root().join("known_findings.json");
    let Ok(s) = std::fs::read_to_string(p) else { return vec![] };
    let v: Value = serde_json::from_str(&s).unwrap_or(Value::Null);
    v.get("entries")
        .and_then(|e| serde_json::from_value::<Vec<KnownEntry>>(e.clone()).ok())
        .unwrap_or_default()
}

fn is_known(known: &[KnownEntry], id: &str, viol: &Violation) -> Option<KnownEntry> {
    let shape = viol.known_shape.as_ref()?;
    known.iter().find(|k| k.status == "known" && k.property == id && &k.shape == shape).cloned()
}

// ---------------------------------------------------------------------------------------
// Minimisation

pub fn minimise(check: &dyn Check, case: &Value, class: &str, shape: &Option<String>, max_steps: usize) -> (Value, usize) {
    let mut cur = case.clone();
    let mut steps = 0usize;
    let mut improved = true;
    // minimisation is a convenience: bounded in executions and in wall-clock time
    let started = Instant::now();
    while improved && steps < max_steps {
        improved = false;
        for cand in check.shrink(&cur) {
            steps += 1;
            if steps >= max_steps || started.elapsed().as_secs() > 90 {
                break;
            }
            let v = check.execute(&cand);
            // same class *and* same known-finding shape: minimisation must not wander from an
            // unknown violation into a listed finding of the same class (or back)
            if v.harness_error.is_none() && v.violation.as_ref().is_some_and(|x| x.class == class && x.known_shape == *shape) {
                cur = cand;
                improved = true;
                break;
            }
        }
    }
    (cur, steps)
}

/// Replace the seeded strategy of a single-run case by the explicit decision list of its failing
/// run, then cut that list down to the shortest prefix that still fails the same way (the rest
/// of the run follows lowest-id-first).
pub fn minimise_schedule(check: &dyn Check, case: &Value, class: &str) -> Option<Value> {
    let v0 = check.execute(case);
    if v0.schedule.is_empty() || v0.violation.as_ref().is_none_or(|x| x.class != class) {
        return None;
    }
    let with = |n: usize| -> Value {
        let mut c = case.clone();
        if let Some(cfg) = c.get_mut("cfg") {
            cfg["schedule"] = serde_json::json!(v0.schedule[..n].to_vec());
            cfg["strategy"] = serde_json::json!("LowestId");
        }
        c
    };
    let fails = |c: &Value| check.execute(c).violation.is_some_and(|x| x.class == class);
    let full = with(v0.schedule.len());
    if !fails(&full) {
        return None;
    }
    let (mut lo, mut hi) = (0usize, v0.schedule.len());
    while lo < hi {
        let mid = (lo + hi) / 2;
        if fails(&with(mid)) {
            hi = mid;
        } else {
            lo = mid + 1;
        }
    }
    let best = with(hi);
    if fails(&best) { Some(best) } else { Some(full) }
}

// ---------------------------------------------------------------------------------------
// Orchestrator

pub struct CheckOpts {
    pub tier: Tier,
    pub seed: u64,
    pub workers: u64,
    pub secs: Option<u64>,
}

fn self_exe() -> PathBuf {
    std::env::current_exe().unwrap_or_else(|_| PathBuf::from("/verif/sim/target/debug/brushsim"))
}

fn run_child(args: &[String], stdin: Option<&str>) -> Option<(i32, String)> {
    let mut cmd = std::process::Command::new(self_exe());
    cmd.args(args);
    cmd.stdout(std::process::Stdio::piped());
    cmd.stderr(std::process::Stdio::inherit());
    if stdin.is_some() {
        cmd.stdin(std::process::Stdio::piped());
    }
    let mut child = cmd.spawn().ok()?;
    if let Some(s) = stdin {
        child.stdin.take()?.write_all(s.as_bytes()).ok()?;
    }
    let out = child.wait_with_output().ok()?;
    let code = match out.status.code() {
        Some(c) => c,
        None => {
            use std::os::unix::process::ExitStatusExt as _;
            1000 + out.status.signal().unwrap_or(0)
        }
    };
    Some((code, String::from_utf8_lossy(&out.stdout).to_string()))
}

static LAST_BEAT: std::sync::atomic::AtomicU64 = std::sync::atomic::AtomicU64::new(0);

fn now_secs() -> u64 {
    std::time::SystemTime::now().duration_since(std::time::UNIX_EPOCH).map(|d| d.as_secs()).unwrap_or(0)
}

/// Last-resort net for code under test that escapes the simulator (e.g. blocks on a real
/// descriptor): a process that spends more than VERIF_CASE_TIMEOUT (default 120) seconds of real
/// time inside one case aborts itself; the driver then attributes the abort to the noted case,
/// like any other crash. Cases take milliseconds to a few seconds on the unchanged tree.
pub fn install_watchdog() {
    let limit: u64 = std::env::var("VERIF_CASE_TIMEOUT").ok().and_then(|s| s.parse().ok()).unwrap_or(120);
    LAST_BEAT.store(now_secs(), std::sync::atomic::Ordering::SeqCst);
    std::thread::spawn(move || loop {
        std::thread::sleep(std::time::Duration::from_secs(1));
        let last = LAST_BEAT.load(std::sync::atomic::Ordering::SeqCst);
        if last != 0 && now_secs().saturating_sub(last) > limit {
            eprintln!("brushsim: one case ran for more than {limit} s of real time; aborting this process");
            std::process::abort();
        }
    });
}

/// Marks the start of a case (or the end of all cases with `false`).
pub fn heartbeat(running: bool) {
    LAST_BEAT.store(if running { now_secs() } else { 0 }, std::sync::atomic::Ordering::SeqCst);
}

/// Where worker `w` of the orchestrator with process id `orch` notes the case it is executing
/// (so that a crash of the code under test - stack overflow, abort - can be attributed).
fn current_case_path(orch: u32, w: u64) -> PathBuf {
    let base = std::env::var("BRUSHSIM_SCRATCH").unwrap_or_else(|_| "/tmp/brushsim".into());
    PathBuf::from(base).join(format!("cur-{orch}-{w}.json"))
}

pub fn orchestrate(check: &dyn Check, opts: &CheckOpts) -> i32 {
    let start = Instant::now();
    let id = check.id();
    let tier_s = if opts.tier == Tier::Quick { "quick" } else { "thorough" };
    let secs = opts.secs.unwrap_or_else(|| check.budget_s(opts.tier));
    let root = verif_root();
    let _ = std::fs::create_dir_all(root.join("evidence"));
    let _ = std::fs::create_dir_all(root.join("replays"));
    let known = load_known();

    // 1. corpus: committed replay files that must pass on a correct tree. They run in a child
    // process, so that a case that crashes or hangs the code under test is attributed to it.
    let mut corpus_run = 0u64;
    let mut violations: Vec<(Value, Violation, String)> = vec![]; // (case, violation, origin)
    let mut crashed: Vec<(Value, String, i32)> = vec![];
    let corpus_dir = root.join("corpus").join(id);
    if let Ok(rd) = std::fs::read_dir(&corpus_dir) {
        let mut files: Vec<_> = rd.filter_map(|e| e.ok()).map(|e| e.path()).filter(|p| p.extension().is_some_and(|x| x == "json")).collect();
        files.sort();
        let mut pending: Vec<(String, Value)> = vec![];
        for f in files {
            let Ok(s) = std::fs::read_to_string(&f) else { continue };
            let Ok(v) = serde_json::from_str::<Value>(&s) else { continue };
            pending.push((f.display().to_string(), v.get("case").cloned().unwrap_or(Value::Null)));
        }
        while !pending.is_empty() {
            let cases: Vec<&Value> = pending.iter().map(|(_, c)| c).collect();
            let input = serde_json::to_string(&cases).unwrap_or_default();
            let Some((code, out)) = run_child(&["exec-cases".to_string(), id.to_string()], Some(&input)) else {
                println!("HARNESS-ERROR cannot run the corpus process");
                return 2;
            };
            let mut done = 0usize;
            for line in out.lines().filter(|l| l.starts_with('{')) {
                let Ok(verdict) = serde_json::from_str::<Verdict>(line) else { continue };
                let (name, case) = &pending[done];
                done += 1;
                corpus_run += 1;
                if let Some(e) = verdict.harness_error {
                    println!("HARNESS-ERROR corpus {name}: {e}");
                    return 2;
                }
                if let Some(viol) = verdict.violation {
                    violations.push((case.clone(), viol, format!("corpus:{name}")));
                }
            }
            if done < pending.len() {
                // the process ended while executing pending[done]
                let (name, case) = pending[done].clone();
                corpus_run += 1;
                crashed.push((case, format!("corpus:{name}"), if code >= 1000 { code - 1000 } else { 0 }));
                pending.drain(..=done);
            } else {
                pending.clear();
            }
        }
    }

    let exhaustive_count = check.exhaustive(opts.tier).len();

    // 2. explore in worker processes
    let n = opts.workers.max(1);
    let mut children = vec![];
    for w in 0..n {
        let mut cmd = std::process::Command::new(self_exe());
        cmd.args([
            "worker".to_string(),
            id.to_string(),
            tier_s.to_string(),
            opts.seed.to_string(),
            w.to_string(),
            n.to_string(),
            secs.to_string(),
            check.max_cases(opts.tier).to_string(),
        ]);
        cmd.stdout(std::process::Stdio::piped());
        cmd.stderr(std::process::Stdio::inherit());
        match cmd.spawn() {
            Ok(c) => children.push(c),
            Err(e) => {
                println!("HARNESS-ERROR cannot spawn worker: {e}");
                return 2;
            }
        }
    }
    let mut total = WorkerSummary::default();
    let mut keys: HashSet<u64> = HashSet::new();
    let mut shapes: HashSet<u64> = HashSet::new();
    let mut rechecks: Vec<(u64, Vec<u64>)> = vec![];
    for (w, c) in children.into_iter().enumerate() {
        let out = match c.wait_with_output() {
            Ok(o) => o,
            Err(e) => {
                println!("HARNESS-ERROR worker: {e}");
                return 2;
            }
        };
        if !out.status.success() {
            // the code under test may have crashed the process (stack overflow, abort): if the
            // case the worker was executing crashes a fresh process too, that is a violation
            let cur = current_case_path(std::process::id(), w as u64);
            let noted: Option<Value> = std::fs::read_to_string(&cur).ok().and_then(|t| serde_json::from_str(&t).ok());
            let _ = std::fs::remove_file(&cur);
            // (killed by a signal, or gone without a verdict: e.g. replaced by another program)
            let crashed_again = noted.as_ref().and_then(|n| {
                let case_s = serde_json::to_string(&n["case"]).ok()?;
                match run_child(&["exec-case".to_string(), id.to_string()], Some(&case_s)) {
                    Some((code, _)) if code >= 1000 => Some(code - 1000),
                    Some((_, out)) if !out.lines().any(|l| l.starts_with('{')) => Some(0),
                    _ => None,
                }
            });
            match (noted, crashed_again) {
                (Some(n), Some(sig)) => {
                    crashed.push((n["case"].clone(), format!("seed:{}", n["seed"]), sig));
                    continue;
                }
                _ => {
                    println!("HARNESS-ERROR worker exited with {:?}", out.status);
                    return 2;
                }
            }
        }
        let text = String::from_utf8_lossy(&out.stdout);
        let Some(line) = text.lines().rev().find(|l| l.starts_with('{')) else {
            println!("HARNESS-ERROR worker produced no summary");
            return 2;
        };
        let ws: WorkerSummary = match serde_json::from_str(line) {
            Ok(w) => w,
            Err(e) => {
                println!("HARNESS-ERROR bad worker summary: {e}");
                return 2;
            }
        };
        total.cases += ws.cases;
        total.runs += ws.runs;
        total.decisions += ws.decisions;
        total.sim_time += ws.sim_time;
        total.stats.merge(&ws.stats);
        for (k, v) in ws.classes {
            *total.classes.entry(k).or_insert(0) += v;
        }
        for (k, v) in ws.notes {
            *total.notes.entry(k).or_insert(0) += v;
        }
        keys.extend(ws.nontrivial_keys);
        shapes.extend(ws.shapes);
        total.failures.extend(ws.failures);
        total.harness_errors.extend(ws.harness_errors);
        if total.samples.len() < 5 {
            total.samples.extend(ws.samples);
        }
        rechecks.extend(ws.recheck_hashes);
    }
    if !total.harness_errors.is_empty() {
        for e in &total.harness_errors {
            println!("HARNESS-ERROR {e}");
        }
        return 2;
    }

    // 3. determinism recheck: re-run sampled seeds in another process, compare hashes
    let mut recheck_n = 0u64;
    {
        let sample: Vec<&(u64, Vec<u64>)> = rechecks.iter().take(60).collect();
        if !sample.is_empty() {
            let seeds: Vec<String> = sample.iter().map(|(s, _)| s.to_string()).collect();
            let mut args = vec!["hashes".to_string(), id.to_string(), tier_s.to_string()];
            args.extend(seeds);
            match run_child(&args, None) {
                Some((0, out)) => {
                    let got: Vec<(u64, Vec<u64>)> = out
                        .lines()
                        .filter_map(|l| serde_json::from_str::<(u64, Vec<u64>)>(l).ok())
                        .collect();
                    for (seed, h) in &got {
                        if let Some((_, h0)) = sample.iter().find(|(s, _)| s == seed) {
                            recheck_n += 1;
                            if h0 != h {
                                println!("HARNESS-ERROR nondeterminism: seed {seed} gave different event-log hashes in two processes");
                                return 2;
                            }
                        }
                    }
                }
                _ => {
                    println!("HARNESS-ERROR determinism recheck process failed");
                    return 2;
                }
            }
        }
    }

    // 4. failing seeds: fresh-process confirm, minimise, write replay, confirm replay
    let mut seen_classes: BTreeMap<String, u64> = BTreeMap::new();
    for f in &total.failures {
        let viol: Violation = serde_json::from_value(f["violation"].clone()).unwrap_or(Violation { class: "?".into(), detail: String::new(), known_shape: None });
        *seen_classes.entry(viol.class.clone()).or_insert(0) += 1;
    }
    let mut handled: HashSet<String> = HashSet::new();
    for f in &total.failures {
        let viol: Violation = match serde_json::from_value(f["violation"].clone()) {
            Ok(v) => v,
            Err(_) => continue,
        };
        let key = format!("{}|{:?}", viol.class, viol.known_shape);
        if handled.contains(&key) {
            continue;
        }
        handled.insert(key);
        violations.push((f["case"].clone(), viol, format!("seed:{}", f["seed"])));
    }

    let mut exit = 0;
    let mut known_seen: Vec<String> = vec![];
    let mut violation_count = 0u64;
    let mut reported: HashSet<String> = HashSet::new();
    for (case, viol, origin) in &violations {
        // fresh-process confirmation
        let case_s = serde_json::to_string(case).unwrap_or_default();
        let confirmed = match run_child(&["exec-case".to_string(), id.to_string()], Some(&case_s)) {
            Some((_, out)) => out.lines().rev().find(|l| l.starts_with('{')).and_then(|l| serde_json::from_str::<Verdict>(l).ok()),
            None => None,
        };
        let Some(cv) = confirmed else {
            println!("HARNESS-ERROR could not re-execute failing case from {origin}");
            return 2;
        };
        let Some(cviol) = cv.violation else {
            println!("HARNESS-ERROR failing case from {origin} did not fail again in a fresh process (class {})", viol.class);
            return 2;
        };
        if cviol.class != viol.class {
            println!("HARNESS-ERROR failing case from {origin} changed class {} -> {}", viol.class, cviol.class);
            return 2;
        }
        if let Some(k) = is_known(&known, id, viol) {
            let line = format!("KNOWN-FINDING: property={id} {} [{}]", k.what_fails, k.shape);
            if reported.insert(line.clone()) {
                println!("{line}");
                known_seen.push(k.shape.clone());
            }
            continue;
        }
        // minimise and write the replay file
        let (min_case, steps) = minimise(check, case, &viol.class, &viol.known_shape, 400);
        let min_case = minimise_schedule(check, &min_case, &viol.class).unwrap_or(min_case);
        let mv = check.execute(&min_case);
        let (final_case, final_viol) = match mv.violation {
            Some(v) if v.class == viol.class => (min_case, v),
            _ => (case.clone(), viol.clone()),
        };
        let name = format!("{id}-{:016x}.json", splitmix(case_s.len() as u64 ^ splitmix(case_s.bytes().fold(0u64, |a, b| a.wrapping_mul(131).wrapping_add(b as u64)))));
        let path = root.join("replays").join(&name);
        let replay = json!({
            "format": 1, "property": id, "engine": check.engine(), "origin": origin,
            "class": final_viol.class, "detail": final_viol.detail,
            "case": final_case, "minimise_steps": steps,
            "schedule_note": "case.cfg.schedule (when present) is the explicit decision list: participant ids chosen at successive scheduling decisions; where it ends the run continues lowest-id-first",
            "faults": final_case.pointer("/cfg/faults").cloned().unwrap_or(Value::Null),
        });
        let _ = std::fs::write(&path, serde_json::to_string_pretty(&replay).unwrap_or_default());
        // the replay must reproduce in a fresh process
        match run_child(&["replay".to_string(), path.to_string_lossy().to_string()], None) {
            Some((1, _)) => {}
            other => {
                println!("HARNESS-ERROR replay file {} did not reproduce ({:?})", path.display(), other.map(|o| o.0));
                return 2;
            }
        }
        println!("VIOLATION property={id} replay={} class={} detail={}", path.display(), final_viol.class, final_viol.detail.replace('\n', " "));
        violation_count += 1;
        exit = 1;
    }

    for (case, origin, sig) in crashed.iter().take(3) {
        let case_s = serde_json::to_string(case).unwrap_or_default();
        let class = format!("{id}/crash");
        let detail = if *sig == 0 {
            "the process executing this case ended without a verdict (the code under test exited or replaced the process), again in a fresh process".to_string()
        } else {
            format!("the process executing this case was killed by signal {sig} (stack overflow or abort in the code under test, or a case beyond the real-time limit per case), again in a fresh process")
        };
        let name = format!("{id}-{:016x}.json", splitmix(case_s.len() as u64 ^ splitmix(case_s.bytes().fold(0u64, |a, b| a.wrapping_mul(131).wrapping_add(b as u64)))));
        let path = root.join("replays").join(&name);
        let replay = json!({
            "format": 1, "property": id, "engine": check.engine(), "origin": origin,
            "class": class, "detail": detail, "case": case, "minimise_steps": 0,
            "schedule_note": "not minimised: the case kills the process that executes it",
            "faults": case.pointer("/cfg/faults").cloned().unwrap_or(Value::Null),
        });
        let _ = std::fs::write(&path, serde_json::to_string_pretty(&replay).unwrap_or_default());
        match run_child(&["replay".to_string(), path.to_string_lossy().to_string()], None) {
            Some((1, _)) => {}
            other => {
                println!("HARNESS-ERROR replay file {} did not reproduce ({:?})", path.display(), other.map(|o| o.0));
                return 2;
            }
        }
        println!("VIOLATION property={id} replay={} class={class} detail={detail}", path.display());
        *seen_classes.entry(class).or_insert(0) += 1;
        violation_count += 1;
        exit = 1;
    }

    // 5. evidence
    let wall = start.elapsed().as_secs_f64();
    let evidence = json!({
        "property_id": id,
        "tier": tier_s,
        "seed": opts.seed,
        "level": check.level(),
        "wall_s": wall,
        "violations": violation_count,
        "coverage": {
            "evaluations": total.cases + corpus_run,
            "distinct_nontrivial": keys.len(),
            "rule": check.rule(),
            "samples": total.samples,
            "simulated_runs": total.runs,
            "runs_per_hour": if wall > 0.0 { (total.runs as f64 / wall * 3600.0) as u64 } else { 0 },
            "seeds_per_hour": if wall > 0.0 { (total.cases as f64 / wall * 3600.0) as u64 } else { 0 },
            "sim_time_total": total.sim_time,
            "decisions_total": total.decisions,
            "distinct_interleavings": shapes.len(),
            "distinct_interleavings_measure": "distinct hashes of the per-run decision sequence projected on (participant kind, operation kind)",
            "faults_fired": total.stats.fired,
            "probes": total.stats.probes,
            "swarm_classes": total.classes,
            "notes_not_judged": total.notes,
            "determinism_rechecks": recheck_n,
            "corpus_replayed": corpus_run,
            "known_findings_seen": known_seen,
            "violation_classes_seen": seen_classes,
            "components": check.components(),
            "workers": n,
            "exhaustive": false,
            "exhaustive_part": check.exhaustive_note(opts.tier).map(|n| format!("{n} ({} cases, enumerated completely before the seeded part)", exhaustive_count)),
        },
        "assumptions": check.assumptions(),
    });
    let ev_path = root.join("evidence").join(format!("{id}.json"));
    if std::fs::write(&ev_path, serde_json::to_string_pretty(&evidence).unwrap_or_default()).is_err() {
        println!("HARNESS-ERROR cannot write evidence");
        return 2;
    }
    println!(
        "check {id} {tier_s}: cases={} runs={} distinct_nontrivial={} interleavings={} violations={} known={} wall={:.1}s",
        total.cases + corpus_run,
        total.runs,
        keys.len(),
        shapes.len(),
        violation_count,
        reported.len(),
        wall
    );
    exit
}

pub fn read_stdin_json() -> Option<Value> {
    let mut s = String::new();
    for line in std::io::stdin().lock().lines() {
        s.push_str(&line.ok()?);
        s.push('\n');
    }
    serde_json::from_str(&s).ok()
}
