//! C17 — `wait` really waits: background work is complete and visible when it returns.

use serde::{Deserialize, Serialize};
use serde_json::{Value, json};

use crate::check::{Check, Tier, Verdict, Violation};
use crate::runner::{self, FrontEnd, RunSpec};
use crate::world::{Abort, EventKind, Rng, SimConfig, Strategy};

#[derive(Clone, Debug, Serialize, Deserialize, PartialEq)]
pub enum JobKind {
    Brace,
    Subshell,
    Function,
    /// `simseq 2 | { ...; }`
    Pipeline,
    /// `true && { ...; }` (and-or list)
    AndOr,
    /// a simple command running an external program: `xwork D K >> eff.txt`
    External,
    /// a pipeline of external programs: `xseq 2 | xwork D K >> eff.txt`
    ExternalPipeline,
}

#[derive(Clone, Debug, Serialize, Deserialize, PartialEq)]
pub enum Fail {
    None,
    Status(u8),
    /// expansion of an unset variable under `set -u` after the job's work is done
    Nounset,
}

#[derive(Clone, Debug, Serialize, Deserialize, PartialEq)]
pub enum Site {
    Top,
    InFunction,
    InLoop,
}

#[derive(Clone, Debug, Serialize, Deserialize, PartialEq)]
pub struct Job {
    pub kind: JobKind,
    pub dur: u64,
    pub fail: Fail,
    pub site: Site,
    /// the job's duration is spent in an external program (`xsleep`) instead of a builtin
    #[serde(default)]
    pub external_sleep: bool,
}

#[derive(Clone, Debug, Serialize, Deserialize, PartialEq)]
pub enum Step {
    Launch(usize),
    Fg,
    FgSleep(u64),
    Wait,
    JobsQuery,
    /// a subshell-like context that launches its own jobs and waits for them:
    /// `( J.. & wait; probe wgN @eff.txt )` or `gN=$( ... )`
    Group { jobs: Vec<usize>, cmdsubst: bool },
}

#[derive(Clone, Debug, Serialize, Deserialize)]
pub struct Case {
    pub class: String,
    pub jobs: Vec<Job>,
    pub steps: Vec<Step>,
    pub front_end: FrontEnd,
    pub nounset: bool,
    #[serde(default)]
    pub via_entry: bool,
    pub cfg: SimConfig,
}

fn job_body(k: usize, j: &Job) -> String {
    let tail = match &j.fail {
        Fail::None => String::new(),
        Fail::Status(s) => format!(" simexit {s};"),
        Fail::Nounset => format!(" : $UNSET_VAR_{k};"),
    };
    let sleeper = if j.external_sleep { "xsleep" } else { "simsleep" };
    format!("probe s{k}; {sleeper} {}; echo {k} >> eff.txt; probe d{k};{tail}", j.dur)
}

pub fn render(case: &Case) -> String {
    let mut s = String::new();
    if case.nounset {
        s.push_str("set -u\n");
    }
    let mut fgn = 0;
    let mut waitn = 0;
    let mut groupn = 0;
    for st in &case.steps {
        match st {
            Step::Launch(k) => {
                let j = &case.jobs[*k];
                let body = job_body(*k, j);
                let cmd = match j.kind {
                    JobKind::Brace => format!("{{ {body} }}"),
                    JobKind::Subshell => format!("( {body} )"),
                    JobKind::Function => {
                        s.push_str(&format!("jf{k}() {{ {body} }}\n"));
                        format!("jf{k}")
                    }
                    JobKind::Pipeline => format!("simseq 2 | {{ simcat >/dev/null; {body} }}"),
                    JobKind::AndOr => format!("true && {{ {body} }}"),
                    JobKind::External | JobKind::ExternalPipeline => {
                        let st = if let Fail::Status(s) = j.fail { s } else { 0 };
                        let pre = if j.kind == JobKind::ExternalPipeline { "xseq 2 | " } else { "" };
                        format!("{pre}xwork {} {k} {st} >> eff.txt", j.dur)
                    }
                };
                match j.site {
                    Site::Top => s.push_str(&format!("{cmd} &\n")),
                    Site::InFunction => s.push_str(&format!("lf{k}() {{ {cmd} & }}\nlf{k}\n")),
                    Site::InLoop => s.push_str(&format!("for q{k} in 1; do {cmd} & done\n")),
                }
            }
            Step::Fg => {
                fgn += 1;
                s.push_str(&format!("probe fg{fgn}\necho fg{fgn}\n"));
            }
            Step::FgSleep(d) => s.push_str(&format!("simsleep {d}\n")),
            Step::Wait => {
                waitn += 1;
                s.push_str(&format!("wait\nprobe w{waitn} @eff.txt\n"));
            }
            Step::JobsQuery => s.push_str("jobs >&2\nprobe jq\n"),
            Step::Group { jobs, cmdsubst } => {
                groupn += 1;
                let mut body = String::new();
                for k in jobs {
                    let j = &case.jobs[*k];
                    body.push_str(&format!("{{ {} }} &\n", job_body(*k, j)));
                }
                body.push_str(&format!("wait\nprobe wg{groupn} @eff.txt\n"));
                if *cmdsubst {
                    s.push_str(&format!("g{groupn}=$(\n{body})\n"));
                } else {
                    s.push_str(&format!("(\n{body})\n"));
                }
            }
        }
    }
    s.push_str("probe end\n");
    s
}

pub struct C17;

fn fnv(s: &str) -> u64 {
    let mut h = 0xcbf2_9ce4_8422_2325u64;
    for b in s.bytes() {
        h ^= b as u64;
        h = h.wrapping_mul(0x0000_0100_0000_01B3);
    }
    h
}

impl C17 {
    fn gen_case(&self, seed: u64, tier: Tier) -> Case {
        let mut rng = Rng::new(seed);
        let classes = ["plain", "plain", "failing-jobs", "stdin-sweep", "many", "repeat-wait"];
        let class = classes[rng.below(classes.len() as u64) as usize].to_string();
        let maxj = if tier == Tier::Thorough { 8 } else { 6 };
        let nj = match class.as_str() {
            "many" => rng.range(4, maxj),
            _ => rng.range(1, 4),
        } as usize;
        let durs = [1u64, 2, 3, 5, 8];
        let mut jobs = vec![];
        for _ in 0..nj {
            let kind = match rng.below(8) {
                6 => JobKind::External,
                7 => JobKind::ExternalPipeline,
                0 => JobKind::Brace,
                1 => JobKind::Subshell,
                2 => JobKind::Function,
                3 => JobKind::Pipeline,
                4 => JobKind::AndOr,
                _ => JobKind::Brace,
            };
            let external = matches!(kind, JobKind::External | JobKind::ExternalPipeline);
            let fail = if class == "failing-jobs" {
                match rng.below(3) {
                    0 => Fail::Status(*rng.pick(&[1u8, 3, 7])),
                    1 if !external => Fail::Nounset,
                    _ => Fail::None,
                }
            } else {
                Fail::None
            };
            let site = match rng.below(5) {
                0 => Site::InFunction,
                1 => Site::InLoop,
                _ => Site::Top,
            };
            jobs.push(Job { kind, dur: *rng.pick(&durs), fail, site, external_sleep: rng.below(3) == 0 });
        }
        let nounset = jobs.iter().any(|j| j.fail == Fail::Nounset);
        let mut steps = vec![];
        let mut launched = 0;
        while launched < nj {
            match rng.below(10) {
                0..=4 => {
                    steps.push(Step::Launch(launched));
                    launched += 1;
                }
                5 => steps.push(Step::Fg),
                6 => steps.push(Step::FgSleep(*rng.pick(&durs))),
                7 if class == "repeat-wait" || rng.below(4) == 0 => steps.push(Step::Wait),
                8 => steps.push(Step::JobsQuery),
                _ => steps.push(Step::Fg),
            }
            if steps.len() > 24 {
                break;
            }
        }
        while launched < nj {
            steps.push(Step::Launch(launched));
            launched += 1;
        }
        // sometimes move the last one or two launches into a subshell-like group of their own
        if nj >= 2 && rng.below(4) == 0 {
            let take = rng.range(1, 2) as usize;
            let mut grouped = vec![];
            for _ in 0..take {
                if let Some(pos) = steps.iter().rposition(|s| matches!(s, Step::Launch(_))) {
                    if let Step::Launch(k) = steps.remove(pos) {
                        grouped.push(k);
                    }
                }
            }
            grouped.reverse();
            for k in &grouped {
                jobs[*k].site = Site::Top;
                jobs[*k].kind = JobKind::Brace;
            }
            steps.push(Step::Group { jobs: grouped, cmdsubst: rng.below(2) == 0 });
        }
        if rng.below(2) == 0 {
            steps.push(Step::Fg);
        }
        steps.push(Step::Wait);
        if class == "repeat-wait" || rng.below(3) == 0 {
            steps.push(Step::Fg);
            steps.push(Step::Wait);
        }
        let front_end = match class.as_str() {
            "stdin-sweep" => FrontEnd::Stdin,
            _ => match rng.below(4) {
                0 => FrontEnd::Stdin,
                1 => FrontEnd::ScriptFile,
                _ => FrontEnd::DashC,
            },
        };
        let mut cfg = SimConfig::default();
        cfg.seed = rng.next();
        cfg.capacity = *rng.pick(&[1usize, 4, 64, 65536]);
        cfg.strategy = match rng.below(8) {
            0..=2 => Strategy::Uniform,
            3 => Strategy::RunLong,
            4 => Strategy::Sticky(rng.range(50, 95) as u8),
            5 => Strategy::Starve(rng.below(6) as u8),
            6 => Strategy::Pct { d: rng.range(1, 3) as u8, horizon: 200 },
            _ => Strategy::HighestId,
        };
        cfg.clock_advance_pm = *rng.pick(&[0u16, 0, 20, 100]);
        cfg.budget = 20_000;
        cfg.workers = *rng.pick(&[None, None, Some(1usize), Some(2)]);
        let via_entry = rng.below(5) == 0;
        Case { class, jobs, steps, front_end, nounset, via_entry, cfg }
    }
}

pub fn judge(case: &Case) -> Verdict {
    let script = render(case);
    let mut spec = RunSpec::new(script.clone(), case.front_end.clone(), case.cfg.clone());
    spec.needs_dir = true;
    spec.via_entry = case.via_entry;
    let r = runner::run(&spec);
    let mut v = Verdict::default();
    v.hashes = vec![r.loghash];
    v.shapes = vec![r.shapehash];
    v.runs = 1;
    v.decisions = r.decisions;
    v.sim_time = r.clock;
    v.stats = r.stats.clone();
    v.class_name = case.class.clone();
    v.case_key = fnv(&script);
    v.harness_error = r.harness_error.clone();
    v.schedule = r.schedule.clone();
    v.nontrivial = case.jobs.len() >= 2;
    let viol = |class: &str, detail: String, shape: Option<&str>| Violation { class: class.to_string(), detail, known_shape: shape.map(String::from) };
    let any_task_error = case.jobs.iter().any(|j| j.fail == Fail::Nounset);

    match &r.abort {
        Some(Abort::Deadlock { detail, main_done, worker_starved, .. }) => {
            if !*main_done {
                let class = if *worker_starved { "C17/deadlock/worker-starvation" } else { "C17/deadlock" };
                v.violation = Some(viol(class, format!("workers={:?} {detail} script={script:?}", case.cfg.workers), None));
                return v;
            }
            v.notes.push("orphan tasks blocked after the shell finished".into());
        }
        Some(Abort::Budget { detail, .. }) => {
            v.violation = Some(viol("C17/livelock/budget", format!("{detail} script={script:?}"), None));
            return v;
        }
        Some(Abort::Panic { detail }) => {
            v.violation = Some(viol("C17/panic", format!("{detail} script={script:?}"), None));
            return v;
        }
        None => {}
    }
    if let Some(e) = &r.front_end_error {
        v.violation = Some(viol("C17/front-end-error", format!("{e} script={script:?}"), None));
        return v;
    }

    // index events
    let mut start_seq: Vec<Vec<u64>> = vec![vec![]; case.jobs.len()];
    let mut done_seq: Vec<Vec<u64>> = vec![vec![]; case.jobs.len()];
    let mut fg_tags: Vec<(String, u64)> = vec![];
    let mut waits: Vec<(u64, String)> = vec![];
    let mut groups: Vec<(u64, String)> = vec![];
    let mut end_seen = false;
    for e in &r.events {
        if let EventKind::Probe { tag, jobs, extra, depth, .. } = &e.kind {
            if let Some(k) = tag.strip_prefix('s').and_then(|x| x.parse::<usize>().ok()) {
                if k < start_seq.len() {
                    start_seq[k].push(e.seq);
                }
            } else if let Some(k) = tag.strip_prefix('d').and_then(|x| x.parse::<usize>().ok()) {
                if k < done_seq.len() {
                    done_seq[k].push(e.seq);
                }
            } else if tag.starts_with("fg") {
                fg_tags.push((tag.clone(), e.seq));
            } else if tag.starts_with("wg") {
                groups.push((e.seq, extra.first().cloned().unwrap_or_default()));
            } else if tag.starts_with('w') {
                waits.push((e.seq, extra.first().cloned().unwrap_or_default()));
            } else if tag == "end" {
                end_seen = true;
            }
            // (3) distinct job numbers in the main shell's table
            if *depth == 0 && e.pid == 0 {
                let mut ids = jobs.clone();
                ids.sort_unstable();
                let before = ids.len();
                ids.dedup();
                if ids.len() != before {
                    v.violation = Some(viol(
                        "C17/duplicate-job-id",
                        format!("job table {jobs:?} at probe {tag}; script={script:?}"),
                        Some("job-id-len-plus-one-after-sweep"),
                    ));
                    return v;
                }
            }
        }
    }
    if !end_seen {
        v.violation = Some(viol("C17/foreground/lost", format!("final foreground probe missing; stderr={:?} script={script:?}", String::from_utf8_lossy(&r.err)), None));
        return v;
    }

    // which jobs were launched before each wait (program order)
    let mut launched: Vec<usize> = vec![];
    let mut wait_idx = 0;
    let mut group_idx = 0;
    for st in &case.steps {
        match st {
            Step::Group { jobs, .. } => {
                let Some((gseq, file)) = groups.get(group_idx) else {
                    v.violation = Some(viol("C17/foreground/lost", format!("probe after the wait of group #{group_idx} missing; stderr={:?} script={script:?}", String::from_utf8_lossy(&r.err)), None));
                    return v;
                };
                group_idx += 1;
                for k in jobs {
                    if !done_seq[*k].first().is_some_and(|d| d < gseq) {
                        let class = if any_task_error { "C17/wait-early/job-error" } else { "C17/wait-early" };
                        let shape = if any_task_error { Some("wait-returns-early-after-job-task-error") } else { None };
                        v.violation = Some(viol(class, format!("the wait inside group #{group_idx} returned (seq {gseq}) before its job {k} was done ({:?}); script={script:?}", done_seq[*k]), shape));
                        return v;
                    }
                    if file.lines().filter(|l| *l == k.to_string()).count() != 1 {
                        v.violation = Some(viol("C17/effects-not-visible", format!("after the wait inside group #{group_idx} eff.txt={file:?} lacks job {k}; script={script:?}"), None));
                        return v;
                    }
                }
            }
            Step::Launch(k) => launched.push(*k),
            Step::Wait => {
                let Some((wseq, file)) = waits.get(wait_idx) else {
                    v.violation = Some(viol("C17/foreground/lost", format!("probe after wait #{wait_idx} missing; script={script:?}"), None));
                    return v;
                };
                wait_idx += 1;
                for k in &launched {
                    let finished_before = done_seq[*k].first().is_some_and(|d| d < wseq);
                    if !finished_before {
                        // is this the known shape: an earlier job's task ended in an error?
                        let shape = if any_task_error { Some("wait-returns-early-after-job-task-error") } else { None };
                        let class = if any_task_error { "C17/wait-early/job-error" } else { "C17/wait-early" };
                        v.violation = Some(viol(class, format!("wait #{wait_idx} returned (seq {wseq}) before job {k} was done ({:?}); script={script:?}", done_seq[*k]), shape));
                        return v;
                    }
                    let lines: Vec<&str> = file.lines().collect();
                    let cnt = lines.iter().filter(|l| **l == k.to_string()).count();
                    if cnt != 1 {
                        v.violation = Some(viol("C17/effects-not-visible", format!("after wait #{wait_idx} eff.txt={file:?} has {cnt} lines for job {k}; script={script:?}"), None));
                        return v;
                    }
                }
            }
            _ => {}
        }
    }
    // (2) exactly once
    for k in 0..case.jobs.len() {
        if start_seq[k].len() != 1 || done_seq[k].len() != 1 {
            v.violation = Some(viol("C17/job-lost-or-twice", format!("job {k}: {} starts, {} dones; script={script:?}", start_seq[k].len(), done_seq[k].len()), None));
            return v;
        }
    }
    // (4) foreground order
    let want_fg: Vec<String> = (1..=fg_tags.len()).map(|i| format!("fg{i}")).collect();
    let got_fg: Vec<String> = fg_tags.iter().map(|(t, _)| t.clone()).collect();
    let nfg = case.steps.iter().filter(|s| **s == Step::Fg).count();
    if got_fg != want_fg || got_fg.len() != nfg {
        v.violation = Some(viol("C17/foreground/order", format!("foreground probes {got_fg:?}, want fg1..fg{nfg}; script={script:?}"), None));
        return v;
    }
    let want_out: String = (1..=nfg).map(|i| format!("fg{i}\n")).collect();
    if String::from_utf8_lossy(&r.out) != want_out {
        v.violation = Some(viol("C17/foreground/output", format!("stdout {:?}, want {want_out:?}; script={script:?}", String::from_utf8_lossy(&r.out)), None));
        return v;
    }
    // reach probes
    let order_by_done: Vec<usize> = {
        let mut ks: Vec<usize> = (0..case.jobs.len()).collect();
        ks.sort_by_key(|k| done_seq[*k][0]);
        ks
    };
    if order_by_done.windows(2).any(|w| w[0] > w[1]) {
        v.stats.probe("finish_order_differs_from_launch_order");
    }
    v.case_key = fnv(&format!("{script}|{order_by_done:?}"));
    v
}

impl Check for C17 {
    fn id(&self) -> &'static str {
        "C17"
    }
    fn level(&self) -> &'static str {
        "exploration"
    }
    fn engine(&self) -> &'static str {
        "jobs"
    }
    fn generate(&self, seed: u64, tier: Tier) -> Value {
        serde_json::to_value(self.gen_case(seed, tier)).unwrap_or(Value::Null)
    }
    fn execute(&self, case: &Value) -> Verdict {
        match serde_json::from_value::<Case>(case.clone()) {
            Ok(c) => judge(&c),
            Err(e) => Verdict { harness_error: Some(format!("bad case: {e}")), ..Default::default() },
        }
    }
    fn shrink(&self, case: &Value) -> Vec<Value> {
        let Ok(c) = serde_json::from_value::<Case>(case.clone()) else { return vec![] };
        let mut out: Vec<Case> = vec![];
        // drop a job (and its launch step), renumbering
        for k in 0..c.jobs.len() {
            if c.jobs.len() <= 1 {
                break;
            }
            let mut d = c.clone();
            d.jobs.remove(k);
            d.steps = d
                .steps
                .into_iter()
                .filter_map(|s| match s {
                    Step::Launch(j) if j == k => None,
                    Step::Launch(j) if j > k => Some(Step::Launch(j - 1)),
                    Step::Group { jobs, cmdsubst } => {
                        let js: Vec<usize> = jobs.into_iter().filter(|j| *j != k).map(|j| if j > k { j - 1 } else { j }).collect();
                        if js.is_empty() { None } else { Some(Step::Group { jobs: js, cmdsubst }) }
                    }
                    s => Some(s),
                })
                .collect();
            d.nounset = d.jobs.iter().any(|j| j.fail == Fail::Nounset);
            out.push(d);
        }
        // drop a non-launch step (keep the final wait)
        for i in 0..c.steps.len() {
            if matches!(c.steps[i], Step::Launch(_)) {
                continue;
            }
            if i == c.steps.len() - 1 {
                continue;
            }
            let mut d = c.clone();
            d.steps.remove(i);
            out.push(d);
        }
        for k in 0..c.jobs.len() {
            if c.jobs[k].kind != JobKind::Brace {
                let mut d = c.clone();
                d.jobs[k].kind = JobKind::Brace;
                out.push(d);
            }
            if c.jobs[k].site != Site::Top {
                let mut d = c.clone();
                d.jobs[k].site = Site::Top;
                out.push(d);
            }
            if c.jobs[k].dur > 1 {
                let mut d = c.clone();
                d.jobs[k].dur = 1;
                out.push(d);
            }
            if c.jobs[k].fail != Fail::None {
                let mut d = c.clone();
                d.jobs[k].fail = Fail::None;
                d.nounset = d.jobs.iter().any(|j| j.fail == Fail::Nounset);
                out.push(d);
            }
        }
        if c.cfg.strategy != Strategy::LowestId {
            let mut d = c.clone();
            d.cfg.strategy = Strategy::LowestId;
            out.push(d);
            let mut d = c.clone();
            d.cfg.strategy = Strategy::RunLong;
            out.push(d);
        }
        if c.cfg.clock_advance_pm != 0 {
            let mut d = c.clone();
            d.cfg.clock_advance_pm = 0;
            out.push(d);
        }
        if c.cfg.workers.is_some() {
            let mut d = c.clone();
            d.cfg.workers = None;
            out.push(d);
        }
        if c.front_end != FrontEnd::DashC {
            let mut d = c.clone();
            d.front_end = FrontEnd::DashC;
            out.push(d);
        }
        out.into_iter().filter_map(|c| serde_json::to_value(c).ok()).collect()
    }
    fn rule(&self) -> String {
        "seeded job sets of 1-8 background jobs (brace group, subshell, function, pipeline, and-or list, simple external command, pipeline of external commands; launched from top level, a function or a loop; some failing with a status or a nounset error) with simulated durations from {1,2,3,5,8}, interleaved with foreground probes/echos, foreground sleeps, `jobs` queries and repeated `wait`, through the -c / script-file / stdin front-ends (stdin sweeps completed jobs between commands), under seeded scheduler strategies and early clock advances; non-trivial = at least two jobs; distinct = distinct (script text, observed finishing order)".into()
    }
    fn components(&self) -> Value {
        json!({
            "real": ["brush-core jobs.rs (JobManager add_as_current/wait_all/poll/sweep, Job::wait/poll_done)", "interp.rs spawn_async_ao_list_in_task", "brush-builtins wait/jobs", "brush-interactive run_interactively pre-prompt sweep"],
            "stub": ["tokio scheduler -> token scheduler (one thread per task)", "durations -> simulated clock (simsleep / xsleep / xwork)", "external programs -> simulated processes behind sim_spawn (spawn composition, ChildProcess wait/poll and status decoding are real)", "OS signals and job control (fg/bg/^Z): not simulated", "CPU-count restriction of the quantifier -> worker-count model W in {1,2,unbounded} plus scheduler strategies"]
        })
    }
    fn assumptions(&self) -> Vec<String> {
        vec![
            "a job's file effect is one O_APPEND write to a real file in a private directory".into(),
            "mutual order of concurrent jobs is never judged; only done-before-wait-returns, exactly-once, distinct ids, and foreground order".into(),
        ]
    }
}
