//! C11 — pipelines and command substitutions move all data, in order, without deadlock.

use serde::{Deserialize, Serialize};
use serde_json::{Value, json};

use crate::check::{Check, Tier, Verdict, Violation};
use crate::runner::{self, FrontEnd, RunSpec};
use crate::world::{Abort, EventKind, Rng, SimConfig, Strategy};

#[derive(Clone, Debug, Serialize, Deserialize, PartialEq)]
pub enum Body {
    /// harness builtin (simseq / simcat / simhead / simexit)
    Builtin,
    /// shell loop (`while ... read ... echo`)
    Loop,
    /// simulated external program (xseq / xcat / xhead / xexit): the real spawn path
    External,
    /// Emit only: one `printf` of the whole payload (`printf 'A%sxx\n' {1..n}`)
    Printf,
    /// Emit only: the payload collected by a command substitution inside the stage, then one
    /// `echo "$v"`
    EchoVar,
    /// Copy only: `mapfile -t m; printf '%s\n' "${m[@]}"`
    Mapfile,
    /// Copy only: `echo "$(simcat 64)"` — the stage's input is read by a command substitution
    /// in the words of a simple command
    SubstCat,
    /// Copy only: `simcat B < <(simcat B)` — the stage's input read by a process substitution
    /// written inside the stage
    ProcCat,
    /// Copy only: `{ simcat B & wait; }` — the stage's input read by a background job of the
    /// stage
    BgCat,
    /// Emit only, joined to the next stage with `|&`: every line is followed by a line on
    /// standard error
    LoopBoth,
}

#[derive(Clone, Debug, Serialize, Deserialize, PartialEq)]
pub enum Wrapper {
    None,
    Function,
    Brace,
    Subshell,
    /// `if true; then INNER; fi`
    IfTrue,
    /// `for _w in 1; do INNER; done`
    ForOnce,
    /// `case x in x) INNER ;; esac`
    CaseArm,
}

#[derive(Clone, Debug, Serialize, Deserialize, PartialEq)]
pub enum Role {
    Emit { n: u32, tag: String, pad: u32 },
    /// endless producer (`while :; do echo y; done`); only meaningful before an early exit
    EmitForever,
    Copy { buf: u32 },
    Tag { prefix: String },
    Head { k: u32, buf: u32 },
    /// consume input with a sequence of `read` variants, print what each got, copy the rest
    ReadThenCopy { ops: Vec<ReadOp> },
    Exit { status: u8, drain: bool },
    Count,
}

#[derive(Clone, Debug, Serialize, Deserialize, PartialEq)]
pub enum ReadOp {
    /// `IFS= read -r v`
    Line,
    /// `read v` (no whitespace or backslashes in the data, so same result)
    PlainLine,
    /// `IFS= read -r -n N v`: at most N characters, stops after a newline
    NChars(u32),
    /// `IFS= read -r -N N v` with N not beyond the current line
    NExact(u32),
    /// `IFS= read -r -d x v`: up to and including the first 'x'
    DelimX,
    /// `read -r a b` (two variables; data has no blanks, so b is empty)
    TwoVars,
    /// `mapfile -t -n K arr`: exactly K lines
    MapfileN(u32),
    /// `readarray -t -n 1 -u 0 arr`
    ReadarrayOne,
}

#[derive(Clone, Debug, Serialize, Deserialize, PartialEq)]
pub struct Stage {
    pub body: Body,
    pub wrapper: Wrapper,
    pub role: Role,
}

#[derive(Clone, Debug, Serialize, Deserialize, PartialEq)]
pub enum Wrap {
    None,
    CmdSubst {
        trailing_newlines: u32,
        /// blanks the output ends with before its trailing newlines: 0 none, 1 " ", 2 tab, 3 CR, 4 " \t "
        #[serde(default)]
        tail: u8,
    },
    /// `x=$(PIPELINE > >(simcat 64))`: a process substitution inside a command substitution
    CmdSubstProcOut,
    /// PIPESTATUS read after a compound command around, or a status-transparent command after,
    /// the pipeline: 0 `{ P; }`, 1 `if true; then P; fi`, 2 `for _g in 1; do P; done`,
    /// 3 `P` then a function definition, 4 `P` then `for _e in; do :; done`, 5 `P` then
    /// `case a in a) ;; esac`
    Compound(u8),
    Backquote,
    InFunction,
    Bang,
    /// `x=$(echo "$(PIPELINE)")`
    NestedCmdSubst,
    /// `simcat 64 < <(PIPELINE)`
    ProcSubstIn,
    /// `PIPELINE > >(simcat 64)` followed by a barrier that waits for the reader
    ProcSubstOut,
    /// `PIPELINE > bgout.txt & wait; simcat 64 < bgout.txt`
    Background,
    /// a background job whose builtin reads from a process substitution:
    /// `{ simcat 64 < <(PIPELINE); } > bgout.txt & wait; simcat 64 < bgout.txt`
    BgProcSubstIn { read_loop: bool },
    /// `PIPELINE || probe alt` / `PIPELINE && probe alt`: `$?` seen by a later operand
    AndOr { and: bool },
}

#[derive(Clone, Debug, Serialize, Deserialize)]
pub struct Case {
    pub class: String,
    pub stages: Vec<Stage>,
    pub wrap: Wrap,
    pub pipefail: bool,
    #[serde(default)]
    pub lastpipe: bool,
    /// status left in `$?` by the command before the pipeline
    #[serde(default)]
    pub pre_status: u8,
    #[serde(default)]
    pub via_entry: bool,
    pub front_end: FrontEnd,
    pub cfg: SimConfig,
}

// ---------------------------------------------------------------------------------------
// rendering

fn render_inner(st: &Stage, idx: usize) -> String {
    let v = format!("l{idx}");
    match (&st.role, &st.body) {
        (Role::Emit { n, tag, pad }, Body::Builtin) => format!("simseq {n} {tag} {pad}"),
        (Role::Emit { n, tag, pad }, Body::External) => format!("xseq {n} {tag} {pad} @{idx}"),
        (Role::Copy { buf }, Body::External) => format!("xcat {buf} @{idx}"),
        (Role::Head { k, buf }, Body::External) => format!("xhead {k} {buf} @{idx}"),
        (Role::Exit { status, drain }, Body::External) if *status > 128 => {
            if *drain {
                format!("xsig {} drain @{idx}", status - 128)
            } else {
                format!("xsig {} nodrain @{idx}", status - 128)
            }
        }
        (Role::Exit { status, drain }, Body::External) => {
            if *drain {
                format!("xexit {status} drain @{idx}")
            } else {
                format!("xexit {status} nodrain @{idx}")
            }
        }
        (Role::Count, Body::External) => format!("c{idx}=0; while IFS= read -r {v}; do c{idx}=$((c{idx}+1)); done; echo \"count=$c{idx}\""),
        (Role::Emit { n, tag, pad }, Body::Printf) => {
            let padstr = "x".repeat(*pad as usize);
            if *n == 0 { ":".to_string() } else { format!("printf '{tag}%s{padstr}\\n' {{1..{n}}}") }
        }
        (Role::Emit { n, tag, pad }, Body::EchoVar) => {
            format!("ev{idx}=$(simseq {n} {tag} {pad}); if [ -n \"$ev{idx}\" ]; then echo \"$ev{idx}\"; fi")
        }
        (Role::Emit { n, tag, pad }, Body::LoopBoth) => {
            let padstr = "x".repeat(*pad as usize);
            format!("i{idx}=0; while [ $i{idx} -lt {n} ]; do i{idx}=$((i{idx}+1)); echo \"{tag}${{i{idx}}}{padstr}\"; echo \"E${{i{idx}}}\" >&2; done")
        }
        (Role::Emit { n, tag, pad }, Body::Mapfile) => format!("simseq {n} {tag} {pad}"),
        (Role::Copy { .. }, Body::Mapfile) => {
            format!("mapfile -t m{idx}; if [ ${{#m{idx}[@]}} -gt 0 ]; then printf '%s\\n' \"${{m{idx}[@]}}\"; fi")
        }
        (Role::Copy { buf }, Body::Printf | Body::EchoVar | Body::LoopBoth) => format!("simcat {buf}"),
        (Role::Copy { buf }, Body::SubstCat) => format!("echo \"$(simcat {buf})\""),
        (Role::Copy { buf }, Body::ProcCat) => format!("simcat {buf} < <(simcat {buf})"),
        (Role::Copy { buf }, Body::BgCat) => format!("simcat {buf} & wait"),
        (Role::Emit { n, tag, pad }, Body::BgCat) => format!("simseq {n} {tag} {pad}"),
        (Role::Emit { n, tag, pad }, Body::ProcCat) => format!("simseq {n} {tag} {pad}"),
        (Role::Emit { n, tag, pad }, Body::SubstCat) => format!("simseq {n} {tag} {pad}"),
        (Role::Emit { n, tag, pad }, Body::Loop) => {
            let padstr = "x".repeat(*pad as usize);
            format!("i{idx}=0; while [ $i{idx} -lt {n} ]; do i{idx}=$((i{idx}+1)); echo \"{tag}${{i{idx}}}{padstr}\"; done")
        }
        (Role::EmitForever, _) => "while :; do echo y; done".to_string(),
        (Role::Copy { buf }, Body::Builtin) => format!("simcat {buf}"),
        (Role::Copy { .. }, Body::Loop) => format!("while IFS= read -r {v}; do echo \"${v}\"; done"),
        (Role::Tag { prefix }, _) => format!("while IFS= read -r {v}; do echo \"{prefix}${v}\"; done"),
        (Role::Head { k, buf }, Body::Builtin | Body::Printf | Body::EchoVar | Body::Mapfile | Body::LoopBoth | Body::SubstCat | Body::ProcCat | Body::BgCat) => format!("simhead {k} {buf}"),
        (Role::Head { k, .. }, Body::Loop) => format!(
            "n{idx}=0; while IFS= read -r {v}; do echo \"${v}\"; n{idx}=$((n{idx}+1)); if [ $n{idx} -ge {k} ]; then break; fi; done"
        ),
        (Role::ReadThenCopy { ops }, _) => {
            let mut s = String::new();
            for (j, op) in ops.iter().enumerate() {
                let var = format!("r{idx}_{j}");
                let cmd = match op {
                    ReadOp::Line => format!("IFS= read -r {var}"),
                    ReadOp::PlainLine => format!("read {var}"),
                    ReadOp::NChars(n) => format!("IFS= read -r -n {n} {var}"),
                    ReadOp::NExact(n) => format!("IFS= read -r -N {n} {var}"),
                    ReadOp::DelimX => format!("IFS= read -r -d x {var}"),
                    ReadOp::TwoVars => format!("read -r {var} {var}b"),
                    ReadOp::MapfileN(k) => format!("mapfile -t -n {k} {var}"),
                    ReadOp::ReadarrayOne => format!("readarray -t -n 1 -u 0 {var}"),
                };
                if matches!(op, ReadOp::MapfileN(_) | ReadOp::ReadarrayOne) {
                    s.push_str(&format!("{cmd}; for e{idx}_{j} in \"${{{var}[@]}}\"; do echo \"R:$e{idx}_{j}\"; done; "));
                    continue;
                }
                s.push_str(&format!("{cmd}; echo \"R:${var}\"; "));
            }
            s.push_str("simcat 64");
            s
        }
        (Role::Exit { status, drain }, _) => {
            if *drain {
                format!("simexit {status} drain")
            } else {
                format!("simexit {status}")
            }
        }
        (Role::Count, _) => format!("c{idx}=0; while IFS= read -r {v}; do c{idx}=$((c{idx}+1)); done; echo \"count=$c{idx}\""),
    }
}

fn is_compound_text(st: &Stage) -> bool {
    // whether the rendered inner text is a compound command / list (not a single simple command)
    !matches!(
        (&st.role, &st.body),
        (Role::Emit { .. }, Body::Builtin | Body::External | Body::Printf)
            | (Role::Copy { .. }, Body::Builtin | Body::External | Body::Printf | Body::EchoVar | Body::LoopBoth | Body::SubstCat | Body::ProcCat)
            | (Role::Head { .. }, Body::Builtin | Body::External | Body::Printf | Body::EchoVar | Body::Mapfile | Body::LoopBoth | Body::SubstCat | Body::ProcCat | Body::BgCat)
            | (Role::Emit { .. }, Body::Mapfile | Body::SubstCat | Body::ProcCat | Body::BgCat)
            | (Role::Exit { .. }, _)
    )
}

/// Does this stage run inline on the spawning task (compound command or function call)?
pub fn runs_inline(st: &Stage) -> bool {
    st.wrapper != Wrapper::None || is_compound_text(st)
}

/// (printf format text, bytes) of a `tail` code
fn tail_text(tail: u8) -> (&'static str, &'static [u8]) {
    match tail {
        1 => (" ", b" "),
        2 => ("\\t", b"\t"),
        3 => ("\\r", b"\r"),
        4 => (" \\t ", b" \t "),
        _ => ("", b""),
    }
}

fn both_joined(st: &Stage) -> bool {
    st.body == Body::LoopBoth && matches!(st.role, Role::Emit { .. })
}

pub fn render(case: &Case) -> String {
    let mut defs = String::new();
    let mut parts = vec![];
    for (i, st) in case.stages.iter().enumerate() {
        let inner = render_inner(st, i);
        let text = match st.wrapper {
            Wrapper::None => {
                if is_compound_text(st) && (matches!(st.body, Body::Mapfile | Body::BgCat) || !matches!(st.role, Role::Tag { .. } | Role::Copy { .. } | Role::EmitForever)) {
                    // a list needs grouping to be one stage
                    format!("{{ {inner}; }}")
                } else {
                    inner
                }
            }
            Wrapper::Function => {
                defs.push_str(&format!("f{i}() {{ {inner}; }}\n"));
                format!("f{i}")
            }
            Wrapper::Brace => format!("{{ {inner}; }}"),
            Wrapper::Subshell => format!("( {inner} )"),
            Wrapper::IfTrue => format!("if true; then {inner}; fi"),
            Wrapper::ForOnce => format!("for _w{i} in 1; do {inner}; done"),
            // (the parenthesised pattern form, so that the text can sit inside $( ) and <( ))
            Wrapper::CaseArm => format!("case x in (x) {inner} ;; esac"),
        };
        parts.push(text);
    }
    let mut pipeline = String::new();
    for (i, part) in parts.iter().enumerate() {
        if i > 0 {
            pipeline.push_str(if both_joined(&case.stages[i - 1]) { " |& " } else { " | " });
        }
        pipeline.push_str(part);
    }
    let mut s = String::new();
    if case.pipefail {
        s.push_str("set -o pipefail\n");
    }
    if case.lastpipe {
        s.push_str("shopt -s lastpipe\n");
    }
    s.push_str(&defs);
    if case.pre_status != 0 {
        s.push_str(&format!("simexit {}\n", case.pre_status));
    }
    match &case.wrap {
        Wrap::None => {
            s.push_str(&pipeline);
            s.push_str("\nprobe st \"${PIPESTATUS[*]}\"\n");
        }
        Wrap::Bang => {
            s.push_str("! ");
            s.push_str(&pipeline);
            s.push_str("\nprobe st \"${PIPESTATUS[*]}\"\n");
        }
        Wrap::InFunction => {
            s.push_str(&format!("wrapf() {{ {pipeline}; }}\nwrapf\nprobe fn\n"));
        }
        Wrap::Compound(k) => {
            let text = match k {
                0 => format!("{{ {pipeline}; }}"),
                1 => format!("if true; then {pipeline}; fi"),
                2 => format!("for _g in 1; do {pipeline}; done"),
                3 => format!("{pipeline}\nlater_def() {{ :; }}"),
                4 => format!("{pipeline}\nfor _e in; do :; done"),
                _ => format!("{pipeline}\ncase a in a) ;; esac"),
            };
            s.push_str(&text);
            s.push_str("\nprobe st \"${PIPESTATUS[*]}\"\n");
        }
        Wrap::CmdSubstProcOut => {
            s.push_str(&format!("x=$({pipeline} > >(simcat 64))\nprobe cs\nprintf '%s|' \"$x\"\n"));
        }
        Wrap::CmdSubst { trailing_newlines, tail } => {
            let mut inner = pipeline.clone();
            if *trailing_newlines > 0 || *tail > 0 {
                inner.push_str("; s=$?");
                if *tail > 0 {
                    inner.push_str(&format!("; printf 'T{}'", tail_text(*tail).0));
                }
                for _ in 0..*trailing_newlines {
                    inner.push_str("; echo");
                }
                inner.push_str("; simexit $s");
            }
            s.push_str(&format!("x=$({inner})\nprobe cs\nprintf '%s|' \"$x\"\n"));
        }
        Wrap::Backquote => {
            s.push_str(&format!("x=`{pipeline}`\nprobe cs\nprintf '%s|' \"$x\"\n"));
        }
        Wrap::NestedCmdSubst => {
            s.push_str(&format!("x=$(echo \"$({pipeline})\")\nprobe ncs\nprintf '%s|' \"$x\"\n"));
        }
        Wrap::ProcSubstIn => {
            s.push_str(&format!("simcat 64 < <({pipeline})\nprobe ps\n"));
        }
        Wrap::AndOr { and } => {
            s.push_str(&format!("{pipeline} {} probe alt\nprobe ao\n", if *and { "&&" } else { "||" }));
        }
        Wrap::BgProcSubstIn { read_loop } => {
            let consumer = if *read_loop { "while IFS= read -r bl; do echo \"$bl\"; done" } else { "simcat 64" };
            s.push_str(&format!("{{ {consumer} < <({pipeline}); }} > bgout.txt &\nwait\nsimcat 64 < bgout.txt\nprobe ps\n"));
        }
        Wrap::Background => {
            s.push_str(&format!("{pipeline} > bgout.txt &\nwait\nsimcat 64 < bgout.txt\nprobe ps\n"));
        }
        Wrap::ProcSubstOut => {
            // the reader is not waited for by the shell: `simres` samples at quiescence
            s.push_str(&format!("{pipeline} > >(simcat 64)\nsimres barrier\nprobe ps\n"));
        }
    }
    s
}

// ---------------------------------------------------------------------------------------
// reference model: sequential composition of the stage functions

pub struct Model {
    pub output: Vec<u8>,
    /// allowed statuses per stage
    pub allowed: Vec<Vec<u8>>,
    pub has_early_exit: bool,
    pub forever: bool,
}

pub fn model(case: &Case) -> Model {
    let mut lines: Vec<String> = vec![];
    let mut allowed: Vec<Vec<u8>> = vec![];
    let mut forever = false;
    // does stage i stop reading before its input ends?
    let mut early: Vec<bool> = vec![];
    let mut endless_input = false;
    #[allow(unused_assignments)]
    let mut raw_tail = false;
    for (sti, st) in case.stages.iter().enumerate() {
        let incoming = lines.len();
        let mut st_early = false;
        match &st.role {
            Role::Emit { n, tag, pad } => {
                let padstr = "x".repeat(*pad as usize);
                lines = (1..=*n).map(|i| format!("{tag}{i}{padstr}")).collect();
                if both_joined(st) && sti + 1 < case.stages.len() {
                    lines = (1..=*n).flat_map(|i| [format!("{tag}{i}{padstr}"), format!("E{i}")]).collect();
                }
                allowed.push(vec![0]);
            }
            Role::EmitForever => {
                forever = true;
                endless_input = true;
                lines = vec![];
                allowed.push(vec![0]);
            }
            Role::Copy { .. } => {
                if st.body == Body::SubstCat && !endless_input {
                    // `echo "$(…)"`: the substitution drops every trailing newline, echo adds one
                    while lines.last().is_some_and(|l| l.is_empty()) {
                        lines.pop();
                    }
                    if lines.is_empty() {
                        lines = vec![String::new()];
                    }
                    raw_tail = false;
                }
                allowed.push(vec![0]);
            }
            Role::Tag { prefix } => {
                lines = lines.iter().map(|l| format!("{prefix}{l}")).collect();
                allowed.push(vec![0]);
            }
            Role::Head { k, .. } => {
                if endless_input {
                    lines = (0..*k).map(|_| "y".to_string()).collect();
                    st_early = true;
                    endless_input = false;
                } else {
                    if (*k as usize) < incoming {
                        st_early = true;
                    }
                    lines.truncate(*k as usize);
                }
                allowed.push(vec![0]);
            }
            Role::ReadThenCopy { ops } => {
                // operate on the byte stream
                let mut data: Vec<u8> = vec![];
                for l in &lines {
                    data.extend_from_slice(l.as_bytes());
                    data.push(b'\n');
                }
                let mut pos = 0usize;
                let mut out: Vec<u8> = vec![];
                for op in ops {
                    if let ReadOp::MapfileN(_) | ReadOp::ReadarrayOne = op {
                        let k = if let ReadOp::MapfileN(k) = op { *k as usize } else { 1 };
                        for _ in 0..k {
                            let rest = &data[pos..];
                            if rest.is_empty() {
                                break;
                            }
                            let (line, used) = match rest.iter().position(|b| *b == b'\n') {
                                Some(i) => (rest[..i].to_vec(), i + 1),
                                None => (rest.to_vec(), rest.len()),
                            };
                            pos += used;
                            out.extend_from_slice(b"R:");
                            out.extend_from_slice(&line);
                            out.push(b'\n');
                        }
                        continue;
                    }
                    let rest = &data[pos..];
                    let (val, used): (Vec<u8>, usize) = match op {
                        ReadOp::Line | ReadOp::PlainLine | ReadOp::TwoVars => match rest.iter().position(|b| *b == b'\n') {
                            Some(i) => (rest[..i].to_vec(), i + 1),
                            None => (rest.to_vec(), rest.len()),
                        },
                        ReadOp::NChars(n) => {
                            let n = *n as usize;
                            match rest.iter().take(n).position(|b| *b == b'\n') {
                                Some(i) => (rest[..i].to_vec(), i + 1),
                                None => {
                                    let k = n.min(rest.len());
                                    (rest[..k].to_vec(), k)
                                }
                            }
                        }
                        ReadOp::NExact(n) => {
                            let k = (*n as usize).min(rest.len());
                            (rest[..k].to_vec(), k)
                        }
                        ReadOp::DelimX => match rest.iter().position(|b| *b == b'x') {
                            Some(i) => (rest[..i].to_vec(), i + 1),
                            None => (rest.to_vec(), rest.len()),
                        },
                        ReadOp::MapfileN(_) | ReadOp::ReadarrayOne => unreachable!(),
                    };
                    pos += used;
                    out.extend_from_slice(b"R:");
                    out.extend_from_slice(&val);
                    out.push(b'\n');
                }
                out.extend_from_slice(&data[pos..]);
                // back to lines (the stream always ends with a newline here unless empty)
                let text = String::from_utf8_lossy(&out).to_string();
                lines = text.split_terminator('\n').map(String::from).collect();
                raw_tail = if !out.is_empty() && out.last() != Some(&b'\n') { true } else { false };
                allowed.push(vec![0]);
            }
            Role::Exit { status, drain } => {
                if !*drain && (incoming > 0 || endless_input) {
                    st_early = true;
                }
                endless_input = false;
                lines = vec![];
                allowed.push(vec![*status]);
            }
            Role::Count => {
                lines = vec![format!("count={incoming}")];
                allowed.push(vec![0]);
            }
        }
        early.push(st_early);
    }
    // every stage upstream of an early-exit consumer may also end with 141 (timing dependent
    // in bash itself), and so may its own upstream stages
    let has_early_exit = early.iter().any(|e| *e);
    for i in 0..case.stages.len() {
        if early.iter().skip(i + 1).any(|e| *e) && !allowed[i].contains(&141) {
            allowed[i].push(141);
        }
    }
    let mut output = vec![];
    for l in &lines {
        output.extend_from_slice(l.as_bytes());
        output.push(b'\n');
    }
    if raw_tail {
        output.pop();
    }
    Model { output, allowed, has_early_exit, forever }
}

fn overall_status(statuses: &[u8], pipefail: bool) -> u8 {
    if pipefail {
        statuses.iter().rev().find(|s| **s != 0).copied().unwrap_or(0)
    } else {
        *statuses.last().unwrap_or(&0)
    }
}

fn allowed_overall(allowed: &[Vec<u8>], pipefail: bool) -> Vec<u8> {
    let mut out = vec![];
    let mut idx = vec![0usize; allowed.len()];
    loop {
        let st: Vec<u8> = idx.iter().enumerate().map(|(i, j)| allowed[i][*j]).collect();
        let o = overall_status(&st, pipefail);
        if !out.contains(&o) {
            out.push(o);
        }
        let mut k = 0;
        loop {
            if k == idx.len() {
                return out;
            }
            idx[k] += 1;
            if idx[k] < allowed[k].len() {
                break;
            }
            idx[k] = 0;
            k += 1;
        }
    }
}

// ---------------------------------------------------------------------------------------

pub struct C11;

fn payload_bytes(case: &Case) -> u64 {
    model_payload(&case.stages)
}

fn model_payload(stages: &[Stage]) -> u64 {
    match stages.first().map(|s| &s.role) {
        Some(Role::Emit { n, tag, pad }) => (*n as u64) * (tag.len() as u64 + 3 + *pad as u64),
        _ => 0,
    }
}

fn gen_strategy(rng: &mut Rng) -> Strategy {
    match rng.below(10) {
        0..=2 => Strategy::Uniform,
        3 => Strategy::RunLong,
        4 => Strategy::Sticky(rng.range(50, 95) as u8),
        5..=6 => Strategy::Starve(rng.below(5) as u8),
        7 => Strategy::Pct { d: rng.range(1, 3) as u8, horizon: 300 },
        8 => Strategy::HighestId,
        _ => Strategy::LowestId,
    }
}

fn gen_wrapper(rng: &mut Rng) -> Wrapper {
    match rng.below(9) {
        0..=1 => Wrapper::None,
        2..=3 => Wrapper::Function,
        4 => Wrapper::Brace,
        5 => Wrapper::Subshell,
        6 => Wrapper::IfTrue,
        7 => Wrapper::ForOnce,
        _ => Wrapper::CaseArm,
    }
}

fn gen_body(rng: &mut Rng) -> Body {
    match rng.below(3) {
        0 => Body::Builtin,
        1 => Body::Loop,
        _ => Body::External,
    }
}

impl C11 {
    fn gen_case(&self, seed: u64, tier: Tier) -> Case {
        let mut rng = Rng::new(seed);
        let classes = ["small", "big", "early-exit", "cmdsubst", "shared-read", "forever", "builtin-big", "external-big"];
        let mut class = classes[rng.below(classes.len() as u64) as usize].to_string();
        // real sizes: the 64 KiB pipe with payloads beyond it (no byte-wise `read` loops)
        if rng.below(if tier == Tier::Thorough { 8 } else { 25 }) == 0 {
            class = "real-size".to_string();
        }
        let nstages = rng.range(2, if tier == Tier::Thorough { 4 } else { 4 }) as usize;
        // capacity: log-uniform 1 .. 64 KiB
        let cap_exp = rng.below(17);
        let mut capacity = (1usize << cap_exp) + rng.below(1 << cap_exp) as usize;
        if capacity > 65536 {
            capacity = 65536;
        }
        let max_payload: u64 = if tier == Tier::Thorough { 6000 } else { 2500 };
        let (n, pad) = {
            let pad = *rng.pick(&[0u32, 0, 1, 3, 7, 20, 60]);
            let line = 3 + pad as u64;
            let want: u64 = match class.as_str() {
                "small" => rng.range(0, (capacity as u64 / 2).min(max_payload)),
                _ => {
                    if capacity as u64 * 2 > max_payload {
                        // shrink the pipe instead of growing the payload
                        capacity = rng.range(1, (max_payload / 4).max(2)) as usize;
                    }
                    rng.range(capacity as u64 + 1, (capacity as u64 * 40).min(max_payload).max(capacity as u64 + 2))
                }
            };
            (((want / line) as u32).min(999), pad)
        };
        // (a two-byte UTF-8 tag, except where `read -n/-N/-d` count bytes against the model)
        let tag = if class != "shared-read" && rng.below(5) == 0 { "ü".to_string() } else { ["A", "B", "L"][rng.below(3) as usize].to_string() };
        let (n, pad, capacity) = if class == "real-size" {
            let pad = 60u32;
            let bytes = rng.range(66_000, if tier == Tier::Thorough { 300_000 } else { 140_000 });
            ((bytes / 64) as u32, pad, 65536usize)
        } else {
            (n, pad, capacity)
        };
        let mut stages = vec![];
        // source
        let forever = class == "forever";
        if forever {
            stages.push(Stage { body: Body::Loop, wrapper: rng.pick(&[Wrapper::None, Wrapper::Brace, Wrapper::Subshell, Wrapper::Function]).clone(), role: Role::EmitForever });
        } else {
            let (body, wrapper) = if class == "builtin-big" {
                (Body::Builtin, Wrapper::None)
            } else if class == "external-big" {
                (Body::External, Wrapper::None)
            } else if class == "real-size" {
                (if rng.below(2) == 0 { Body::Builtin } else { Body::External }, gen_wrapper(&mut rng))
            } else {
                let b = match rng.below(9) {
                    0 => Body::Printf,
                    1 => Body::EchoVar,
                    2 if nstages >= 2 => Body::LoopBoth,
                    _ => gen_body(&mut rng),
                };
                (b, gen_wrapper(&mut rng))
            };
            stages.push(Stage { body, wrapper, role: Role::Emit { n, tag, pad } });
        }
        for i in 1..nstages {
            let last = i == nstages - 1;
            let (body, wrapper) = if class == "builtin-big" && !last {
                (Body::Builtin, Wrapper::None)
            } else if class == "external-big" && !last {
                (Body::External, Wrapper::None)
            } else if class == "real-size" {
                (if rng.below(2) == 0 { Body::Builtin } else { Body::External }, gen_wrapper(&mut rng))
            } else {
                (gen_body(&mut rng), gen_wrapper(&mut rng))
            };
            let role = match class.as_str() {
                "real-size" => match rng.below(6) {
                    0 => Role::Head { k: rng.range(1, (n as u64 / 2).max(1)) as u32, buf: *rng.pick(&[512u32, 4096, 8192, 65536]) },
                    1 if last => Role::Exit { status: *rng.pick(&[0u8, 3]), drain: true },
                    _ => Role::Copy { buf: *rng.pick(&[512u32, 4096, 8192, 65536, 100_000]) },
                },
                "early-exit" | "forever" if i == 1 || rng.below(3) == 0 => {
                    if rng.below(4) == 0 {
                        Role::Exit { status: *rng.pick(&[0u8, 1, 3, 7]), drain: false }
                    } else {
                        Role::Head { k: rng.range(1, (n.max(2) / 2).max(1) as u64) as u32, buf: *rng.pick(&[1u32, 8, 64, 512]) }
                    }
                }
                "shared-read" if last || rng.below(2) == 0 => {
                    let line_len = 2 + pad; // tag + at least one digit + pad
                    let nops = rng.range(1, 3);
                    let ops = (0..nops)
                        .map(|_| match rng.below(12) {
                            9..=10 => ReadOp::MapfileN(rng.range(1, 2) as u32),
                            11 => ReadOp::ReadarrayOne,
                            0..=2 => ReadOp::Line,
                            3 => ReadOp::PlainLine,
                            4..=5 => ReadOp::NChars(*rng.pick(&[1u32, 2, 5, 9, 40, 200])),
                            6 => ReadOp::NExact(rng.range(1, line_len.max(1) as u64) as u32),
                            7 => ReadOp::DelimX,
                            _ => ReadOp::TwoVars,
                        })
                        .collect();
                    Role::ReadThenCopy { ops }
                }
                _ => match rng.below(10) {
                    0..=3 => Role::Copy { buf: *rng.pick(&[1u32, 3, 16, 64, 512, 4096]) },
                    4..=5 => Role::Tag { prefix: ["T", "U:", "zz"][rng.below(3) as usize].to_string() },
                    6 if last => Role::Count,
                    7 if last => Role::Exit { status: *rng.pick(&[0u8, 2, 5, 143]), drain: true },
                    8 => Role::Exit { status: *rng.pick(&[0u8, 1, 4, 130, 143]), drain: true },
                    _ => Role::Copy { buf: 64 },
                },
            };
            let body = if matches!(role, Role::Copy { .. }) && class != "real-size" && class != "builtin-big" && class != "external-big" && class != "forever" {
                match rng.below(8) {
                    0 => Body::Mapfile,
                    1 => Body::SubstCat,
                    2 => Body::ProcCat,
                    3 => Body::BgCat,
                    _ => body,
                }
            } else {
                body
            };
            stages.push(Stage { body, wrapper, role });
        }
        // ReadThenCopy needs a compound wrapper
        for st in &mut stages {
            if matches!(st.role, Role::ReadThenCopy { .. }) && st.wrapper == Wrapper::None {
                st.wrapper = Wrapper::Brace;
            }
        }
        let wrap = match class.as_str() {
            "real-size" => match rng.below(4) {
                0 => Wrap::CmdSubst { trailing_newlines: rng.below(3) as u32, tail: 0 },
                1 => Wrap::NestedCmdSubst,
                _ => Wrap::None,
            },
            "cmdsubst" => {
                if rng.below(5) == 0 {
                    Wrap::Backquote
                } else {
                    Wrap::CmdSubst { trailing_newlines: rng.below(4) as u32, tail: if rng.below(3) == 0 { rng.range(1, 4) as u8 } else { 0 } }
                }
            }
            _ => match rng.below(12) {
                0 => Wrap::Bang,
                1 => Wrap::InFunction,
                2 => Wrap::NestedCmdSubst,
                3 => Wrap::ProcSubstIn,
                4 => Wrap::ProcSubstOut,
                5 => Wrap::Background,
                7 => Wrap::BgProcSubstIn { read_loop: rng.below(2) == 0 },
                8 => Wrap::CmdSubstProcOut,
                9 => Wrap::Compound(rng.below(6) as u8),
                6 => Wrap::AndOr { and: rng.below(2) == 0 },
                _ => Wrap::None,
            },
        };
        let front_end = match rng.below(6) {
            0 => FrontEnd::Stdin,
            1 => FrontEnd::ScriptFile,
            _ => FrontEnd::DashC,
        };
        let mut cfg = SimConfig::default();
        cfg.seed = rng.next();
        cfg.capacity = capacity;
        cfg.strategy = gen_strategy(&mut rng);
        cfg.short_read_pm = if rng.below(4) == 0 { *rng.pick(&[50u16, 300]) } else { 0 };
        cfg.workers = *rng.pick(&[None, None, None, Some(1usize), Some(2)]);
        let bytes = model_payload(&stages).max(64);
        cfg.budget = if forever {
            30_000
        } else if class == "real-size" {
            // per-line writes of the source plus block copies of the other stages
            20_000 + (n as u64) * 6 + (bytes / 256) * (nstages as u64) * 4
        } else {
            // every copying participant moves every byte at least once; process substitutions
            // written inside stages or wrapped around the pipeline add participants, a stage
            // that also writes to stderr doubles the payload, and `read`-driven consumers spend
            // several steps per line
            let extra: u64 = stages.iter().filter(|st| matches!(st.body, Body::ProcCat | Body::SubstCat | Body::EchoVar | Body::Mapfile | Body::BgCat)).count() as u64
                + u64::from(matches!(wrap, Wrap::ProcSubstIn | Wrap::ProcSubstOut | Wrap::BgProcSubstIn { .. } | Wrap::CmdSubstProcOut | Wrap::NestedCmdSubst | Wrap::Background)) * 2;
            let doubled = if stages.first().is_some_and(|st| st.body == Body::LoopBoth) { 3 } else { 1 };
            5_000 + bytes * doubled * (nstages as u64 + extra) * 24
        };
        if class == "real-size" {
            cfg.short_read_pm = 0;
        }
        // (side finding, not C11: brush cannot parse a `case` inside <( ) / >( ))
        if matches!(wrap, Wrap::ProcSubstIn | Wrap::ProcSubstOut | Wrap::BgProcSubstIn { .. } | Wrap::CmdSubstProcOut) {
            for st in &mut stages {
                if st.wrapper == Wrapper::CaseArm {
                    st.wrapper = Wrapper::Brace;
                }
            }
        }
        let lastpipe = rng.below(5) == 0;
        let via_entry = rng.below(5) == 0;
        let pre_status = *rng.pick(&[0u8, 0, 1, 3, 4, 5, 7, 141]);
        Case { class, stages, wrap, pipefail: rng.below(3) == 0, lastpipe, pre_status, via_entry, front_end, cfg }
    }
}

fn fnv(s: &str) -> u64 {
    let mut h = 0xcbf2_9ce4_8422_2325u64;
    for b in s.bytes() {
        h ^= b as u64;
        h = h.wrapping_mul(0x0000_0100_0000_01B3);
    }
    h
}

pub fn judge(case: &Case) -> Verdict {
    let script = render(case);
    let m = model(case);
    let mut spec = RunSpec::new(script.clone(), case.front_end.clone(), case.cfg.clone());
    spec.needs_dir = matches!(case.wrap, Wrap::Background | Wrap::BgProcSubstIn { .. });
    spec.via_entry = case.via_entry;
    let r = runner::run(&spec);
    let mut v = Verdict::default();
    v.hashes = vec![r.loghash];
    v.shapes = vec![r.shapehash];
    v.runs = 1;
    v.decisions = r.decisions;
    v.sim_time = r.clock;
    v.stats = r.stats.clone();
    v.class_name = case.class.clone();
    v.case_key = fnv(&format!("{script}|{}", case.cfg.capacity));
    v.harness_error = r.harness_error.clone();
    v.schedule = r.schedule.clone();
    let blocked = r.stats.probes.get("writer_blocked_on_full_pipe").copied().unwrap_or(0) > 0;
    v.nontrivial = blocked || m.has_early_exit || payload_bytes(case) > case.cfg.capacity as u64;
    if r.stats.probes.contains_key("writer_blocked_on_full_pipe") {
        v.stats.probe("case_with_writer_blocked");
    }

    // shape predicates for known findings
    let inline_nonfinal = case.stages[..case.stages.len() - 1].iter().any(runs_inline);
    let viol = |class: &str, detail: String, shape: Option<&str>| Violation { class: class.to_string(), detail, known_shape: shape.map(String::from) };

    // 1. liveness
    match &r.abort {
        Some(Abort::Deadlock { detail, self_owned, main_done, worker_starved }) => {
            if *main_done {
                v.notes.push("orphan tasks blocked after the shell finished".into());
            } else {
                let (class, shape) = if *worker_starved {
                    // tasks made with tokio::spawn block their runtime worker in synchronous pipe
                    // I/O; with few workers (few CPUs) the task that would unblock them never runs
                    ("C11/deadlock/worker-starvation", None)
                } else if *self_owned && inline_nonfinal {
                    ("C11/deadlock/self-owned-reader", Some("inline-nonfinal-stage"))
                } else {
                    ("C11/deadlock/other", None)
                };
                v.violation = Some(viol(class, format!("{detail} script={script:?}"), shape));
                return v;
            }
        }
        Some(Abort::Budget { detail, epipe_spin }) => {
            let (class, shape) = if *epipe_spin && m.forever {
                ("C11/livelock/epipe-ignored", Some("endless-writer-not-ended-by-epipe"))
            } else if m.forever && inline_nonfinal {
                // the endless inline stage never lets the pipeline get as far as its consumer
                ("C11/livelock/inline-endless-stage", Some("inline-nonfinal-stage"))
            } else {
                ("C11/livelock/budget", None)
            };
            v.violation = Some(viol(class, format!("{detail} script={script:?}"), shape));
            return v;
        }
        Some(Abort::Panic { detail }) => {
            v.violation = Some(viol("C11/panic", detail.clone(), None));
            return v;
        }
        None => {}
    }
    if let Some(e) = &r.front_end_error {
        v.violation = Some(viol("C11/front-end-error", e.clone(), None));
        return v;
    }

    // 2. integrity of the data reaching the final sink
    let expected_out: Vec<u8> = match &case.wrap {
        Wrap::CmdSubst { .. } | Wrap::Backquote | Wrap::NestedCmdSubst | Wrap::CmdSubstProcOut => {
            let mut o = m.output.clone();
            if let Wrap::CmdSubst { tail, .. } = &case.wrap {
                if *tail > 0 {
                    o.push(b'T');
                    o.extend_from_slice(tail_text(*tail).1);
                }
            }
            while o.last() == Some(&b'\n') {
                o.pop();
            }
            o.push(b'|');
            o
        }
        _ => m.output.clone(),
    };
    if r.out != expected_out {
        let got = String::from_utf8_lossy(&r.out);
        let want = String::from_utf8_lossy(&expected_out);
        let at = r.out.iter().zip(expected_out.iter()).position(|(a, b)| a != b).unwrap_or(r.out.len().min(expected_out.len()));
        v.violation = Some(viol(
            "C11/integrity/output-mismatch",
            format!("first difference at byte {at}: got {} bytes, want {}; got={:?} want={:?} script={script:?}", r.out.len(), expected_out.len(), trunc(&got), trunc(&want)),
            None,
        ));
        return v;
    }

    // 3. statuses
    let probe = r.events.iter().find_map(|e| match &e.kind {
        EventKind::Probe { tag, status, extra, .. } if tag == "st" || tag == "cs" || tag == "fn" || tag == "ncs" || tag == "ps" || tag == "ao" => Some((tag.clone(), *status, extra.clone())),
        _ => None,
    });
    let Some((tag, status, extra)) = probe else {
        v.violation = Some(viol("C11/status/probe-missing", format!("no status probe fired; script={script:?}"), None));
        return v;
    };
    if tag == "st" {
        let ps: Vec<u8> = extra.first().map(|s| s.split_whitespace().filter_map(|x| x.parse().ok()).collect()).unwrap_or_default();
        if ps.len() != case.stages.len() {
            v.violation = Some(viol("C11/status/pipestatus-length", format!("PIPESTATUS={ps:?} for {} stages; script={script:?}", case.stages.len()), None));
            return v;
        }
        // an external stage's status is known exactly: the simulator saw how the process ended
        for (i, st) in case.stages.iter().enumerate() {
            let plain_external = st.body == Body::External && st.wrapper == Wrapper::None && !is_compound_text(st);
            if !plain_external {
                continue;
            }
            if let Some((_, raw)) = r.proc_exits.iter().find(|(t, _)| *t == format!("@{i}")) {
                let want: u8 = if raw & 0x7f != 0 { 128 + (raw & 0x7f) as u8 } else { ((raw >> 8) & 0xff) as u8 };
                if ps[i] != want {
                    v.violation = Some(viol(
                        "C11/status/external-stage",
                        format!("PIPESTATUS[{i}]={}, but the process ended with raw wait status {raw} (expected {want}); all={ps:?}; script={script:?}", ps[i]),
                        None,
                    ));
                    return v;
                }
                v.stats.probe("external_stage_status_checked_exactly");
            }
        }
        for (i, s) in ps.iter().enumerate() {
            if !m.allowed[i].contains(s) {
                v.violation = Some(viol("C11/status/pipestatus", format!("PIPESTATUS[{i}]={s}, allowed {:?}; all={ps:?}; script={script:?}", m.allowed[i]), None));
                return v;
            }
        }
        let mut want = overall_status(&ps, case.pipefail);
        if case.wrap == Wrap::Bang {
            want = if want == 0 { 1 } else { 0 };
        }
        if matches!(case.wrap, Wrap::Compound(k) if k >= 3) {
            // `$?` is that of the definition / empty loop / empty case after the pipeline
            want = 0;
        }
        if status != want {
            v.violation = Some(viol("C11/status/overall", format!("$?={status}, PIPESTATUS={ps:?}, pipefail={}, bang={}; want {want}; script={script:?}", case.pipefail, case.wrap == Wrap::Bang), None));
            return v;
        }
    } else if tag == "ao" {
        // the operand after `||` / `&&` runs iff the pipeline failed / succeeded, and sees its status
        let Wrap::AndOr { and } = case.wrap else { return v };
        let allowed = allowed_overall(&m.allowed, case.pipefail);
        let alt = r.events.iter().find_map(|e| match &e.kind {
            EventKind::Probe { tag, status, .. } if tag == "alt" => Some(*status),
            _ => None,
        });
        let ok = match alt {
            Some(st) => allowed.contains(&st) && (if and { st == 0 } else { st != 0 }),
            None => allowed.iter().any(|st| if and { *st != 0 } else { *st == 0 }),
        };
        if !ok {
            v.violation = Some(viol(
                "C11/status/and-or-operand",
                format!("the operand after `{}` saw $?={alt:?} (None = did not run); the pipeline's status may be {allowed:?}; script={script:?}", if and { "&&" } else { "||" }),
                None,
            ));
            return v;
        }
    } else if tag == "ncs" || tag == "ps" {
        // the status seen here is that of the outer `echo` / `simcat` / barrier: not judged
    } else {
        let allowed = allowed_overall(&m.allowed, case.pipefail);
        if !allowed.contains(&status) {
            v.violation = Some(viol("C11/status/substitution", format!("$?={status} after {tag}, allowed {allowed:?}; script={script:?}"), None));
            return v;
        }
    }
    v
}

fn trunc(s: &str) -> String {
    if s.len() > 160 { format!("{}…", &s[..s.char_indices().take(160).last().map_or(0, |(i, _)| i)]) } else { s.to_string() }
}

impl Check for C11 {
    fn id(&self) -> &'static str {
        "C11"
    }
    fn level(&self) -> &'static str {
        "exploration"
    }
    fn engine(&self) -> &'static str {
        "pipeline"
    }
    fn generate(&self, seed: u64, tier: Tier) -> Value {
        serde_json::to_value(self.gen_case(seed, tier)).unwrap_or(Value::Null)
    }
    fn execute(&self, case: &Value) -> Verdict {
        match serde_json::from_value::<Case>(case.clone()) {
            Ok(c) => judge(&c),
            Err(e) => Verdict { harness_error: Some(format!("bad case: {e}")), ..Default::default() },
        }
    }
    fn shrink(&self, case: &Value) -> Vec<Value> {
        let Ok(c) = serde_json::from_value::<Case>(case.clone()) else { return vec![] };
        let mut out: Vec<Case> = vec![];
        // drop a non-source stage
        if c.stages.len() > 2 {
            for i in 1..c.stages.len() {
                let mut d = c.clone();
                d.stages.remove(i);
                out.push(d);
            }
        }
        // simplify the schedule
        if c.cfg.strategy != Strategy::LowestId {
            let mut d = c.clone();
            d.cfg.strategy = Strategy::LowestId;
            out.push(d);
            let mut d = c.clone();
            d.cfg.strategy = Strategy::RunLong;
            out.push(d);
        }
        if c.cfg.short_read_pm != 0 {
            let mut d = c.clone();
            d.cfg.short_read_pm = 0;
            out.push(d);
        }
        if c.cfg.workers.is_some() {
            let mut d = c.clone();
            d.cfg.workers = None;
            out.push(d);
        }
        // shrink payload
        if let Some(Role::Emit { n, tag, pad }) = c.stages.first().map(|s| s.role.clone()) {
            for nn in [n / 2, n.saturating_sub(1)] {
                if nn < n && nn > 0 {
                    let mut d = c.clone();
                    d.stages[0].role = Role::Emit { n: nn, tag: tag.clone(), pad };
                    out.push(d);
                }
            }
            if pad > 0 {
                let mut d = c.clone();
                d.stages[0].role = Role::Emit { n, tag: tag.clone(), pad: pad / 2 };
                out.push(d);
            }
        }
        // shrink capacity towards small powers of two
        if c.cfg.capacity > 4 {
            let mut d = c.clone();
            d.cfg.capacity = (c.cfg.capacity / 2).max(1);
            out.push(d);
        }
        // simpler wrappers / bodies / wrap
        for i in 0..c.stages.len() {
            if c.stages[i].wrapper != Wrapper::None && !matches!(c.stages[i].role, Role::ReadThenCopy { .. }) {
                let mut d = c.clone();
                d.stages[i].wrapper = Wrapper::None;
                out.push(d);
            }
            if c.stages[i].body != Body::Builtin && !matches!(c.stages[i].role, Role::Tag { .. } | Role::EmitForever | Role::Count | Role::ReadThenCopy { .. }) {
                let mut d = c.clone();
                d.stages[i].body = Body::Builtin;
                out.push(d);
            }
        }
        if c.wrap != Wrap::None {
            let mut d = c.clone();
            d.wrap = Wrap::None;
            out.push(d);
        }
        if c.pipefail {
            let mut d = c.clone();
            d.pipefail = false;
            out.push(d);
        }
        if c.lastpipe {
            let mut d = c.clone();
            d.lastpipe = false;
            out.push(d);
        }
        if c.pre_status != 0 {
            let mut d = c.clone();
            d.pre_status = 0;
            out.push(d);
        }
        for i in 0..c.stages.len() {
            if let Role::ReadThenCopy { ops } = &c.stages[i].role {
                for j in 0..ops.len() {
                    if ops.len() > 1 {
                        let mut d = c.clone();
                        let mut o = ops.clone();
                        o.remove(j);
                        d.stages[i].role = Role::ReadThenCopy { ops: o };
                        out.push(d);
                    }
                }
            }
        }
        if c.front_end != FrontEnd::DashC {
            let mut d = c.clone();
            d.front_end = FrontEnd::DashC;
            out.push(d);
        }
        out.into_iter().filter_map(|c| serde_json::to_value(c).ok()).collect()
    }
    fn rule(&self) -> String {
        "seeded pipelines of 2-4 stages (stage = {harness builtin, while-read loop, simulated external program} x {bare, function, brace group, subshell} with roles emit/copy/tag/head/read-then-copy/exit/count), optionally inside $( ), backquotes, a function or `!`, with pipefail on/off, through the -c / script-file / stdin front-ends, under a seeded pipe capacity (1 B-64 KiB), scheduler strategy and short reads; a case is non-trivial when some writer actually blocked on a full pipe, the payload exceeds the pipe capacity, or a consumer exits early; distinct = distinct (script text, capacity)".into()
    }
    fn components(&self) -> Value {
        json!({
            "real": ["brush-parser", "brush-core interp/commands/results/openfiles/expansion/jobs", "brush-builtins (echo read test printf set ...)", "brush-interactive run_interactively + minimal read_program_from (stdin front-end)"],
            "stub": ["OS pipes -> bounded in-memory pipes with Linux blocking semantics", "tokio scheduler -> token-passing scheduler over one OS thread per task", "external programs -> simulated processes (xseq/xcat/xhead/xexit run as participants over the inherited descriptors; path search, compose_std_command, ChildProcess::wait/poll and status decoding are real; fork/exec itself and sys/tokio_process.rs are not executed)", "sys/unix/async_pipe.rs (replaced by a drain of the simulated pipe)", "brush-shell entry.rs is exercised in a seeded fraction of the cases (verif_run: argument parsing, instantiate_shell, run_in_shell); in the others the front-end functions are called directly"]
        })
    }
    fn assumptions(&self) -> Vec<String> {
        vec![
            "simulated pipes follow pipe(7): blocking, writes <= min(4096, capacity) atomic, EPIPE when no reader, EOF when no writer".into(),
            "status of a writer upstream of an early-exit consumer may be 0 or 141 (timing dependent in bash itself)".into(),
            "external filter stages are simulated processes: a write to a pipe without readers ends them with SIGPIPE (raw status 13), as the default disposition would".into(),
        ]
    }
}
