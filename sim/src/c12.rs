//! C12 — subshell isolation: nothing done in a subshell changes the parent shell.
//!
//! Differential oracle: the same program with every mutator replaced by `:` must leave the
//! parent with an identical full state snapshot.

use serde::{Deserialize, Serialize};
use serde_json::{Value, json};

use crate::check::{Check, Tier, Verdict, Violation};
use crate::runner::{self, FrontEnd, RunSpec};
use crate::world::{Abort, EventKind, Rng, SimConfig, Strategy};

#[derive(Clone, Debug, Serialize, Deserialize, PartialEq)]
pub enum Context {
    Subshell,
    NestedSubshell,
    /// `((v6=1)); ( (M) )` — parenthesis shapes next to an arithmetic command
    ParenAfterArith,
    CmdSubst,
    Backquote,
    /// `{ M; } | simcat >/dev/null`
    PipeStageBrace,
    /// `mf | simcat >/dev/null` with the mutators inside function `mf`
    PipeStageFunction,
    /// `simseq 2 | { M; simcat >/dev/null; } | simcat >/dev/null`
    PipeStageMiddle,
    Background,
    BackgroundFunction,
    ProcSubstIn,
    ProcSubstOut,
    Coproc,
    /// `coproc M` with a bare simple command as the body
    CoprocSimple,
    /// `M | simcat >/dev/null` with a bare simple command as the stage
    PipeStageSimple,
    /// `simseq 2 | M | simcat >/dev/null` with a bare simple command as the middle stage
    PipeStageSimpleMiddle,
}

#[derive(Clone, Debug, Serialize, Deserialize)]
pub struct Case {
    pub class: String,
    pub context: Context,
    pub mutators: Vec<String>,
    /// a second context of another kind running at the same time (background only)
    pub second: Option<(Context, Vec<String>)>,
    pub parent_activity: Vec<String>,
    /// wait for the background context with `wait %1` instead of a bare `wait`
    #[serde(default)]
    pub wait_job_spec: bool,
    /// run the context inside a loop inside a function of the parent
    #[serde(default)]
    pub in_loop_function: bool,
    /// options the parent itself sets before the context runs (in both runs)
    #[serde(default)]
    pub parent_opts: Vec<String>,
    #[serde(default)]
    pub via_entry: bool,
    pub front_end: FrontEnd,
    pub cfg: SimConfig,
    pub cfg_b: SimConfig,
}

const PREFIX: &str = "v1=one; v2=two; v3=three; declare -x v4=four; declare -i v6=5; arr=(a b c)\n\
declare -A assoc=([k]=v)\n\
fn1() { echo fn1; }\n\
fn2() { echo fn2; }\n\
alias a0='echo a0'\n\
trap 'probe usr1' USR1\n\
set -- p1 p2 p3\n\
pushd sub2 >/dev/null\n\
exec 5>keep5.txt\n\
export -f fn2\n\
complete -W 'x y' pcmd\n\
xtrue\n";

pub const MUTATORS: &[&str] = &[
    "v1=changed",
    "v2+=more",
    "unset v3",
    "declare -x v4=exp2",
    "declare -r v5=ro",
    "declare -i v6=7",
    "export v1",
    "readonly v2",
    "arr[1]=z",
    "arr+=(d)",
    "assoc[k2]=v2",
    "unset -f fn1",
    "fn2() { echo other; }",
    "fn3() { echo new; }",
    "set -o noglob",
    "set -o nounset",
    "set -o pipefail",
    "set +o braceexpand",
    "shopt -s nullglob",
    "shopt -u extglob",
    "alias a1='echo a1'",
    "unalias a0",
    "trap 'echo t' USR2",
    "trap - USR1",
    "trap 'echo bye' EXIT",
    "cd /",
    "cd sub",
    "pushd / >/dev/null",
    "popd >/dev/null",
    "set -- q1 q2",
    "shift",
    "exec 3>file3.txt",
    "exec 5>&-",
    "exec >file_out.txt",
    "exec 2>/dev/null",
    "exec </dev/null",
    "hash -r",
    "enable -n echo",
    "IFS=:",
    "OPTIND=5",
    "eval 'v1=evald'",
    "printf -v v1 x",
    "read v1 <<< fromread",
    "mapfile -t arr <<< m",
    "let v6=9",
    "(( v6++ ))",
    ". ./src.sh",
    "exit 7",
    "v7=new7",
    "declare -g v8=g8",
    "unset arr",
    "declare -n nref=v1",
    "getopts ab: opt -a",
    "wait",
    "break",
    "continue",
    "return 9",
    "exit",
    "export -f fn1",
    "export -nf fn2",
    "readonly -f fn1 >/dev/null",
    "complete -W 'a b' mycmd",
    "complete -r pcmd",
    "hash -p /nonexistent_c12/xtrue xtrue",
    "hash -d xtrue",
    "xfalse",
    "dirs -c",
    "cd - >/dev/null",
    "set -o posix",
    "shopt -s lastpipe",
    "declare +x v4",
    "declare -l lower=ABC",
    "unset -v v1",
    "declare -t v2",
    "set -o allexport; v9=nine",
    "BASH_XTRACEFD=5",
    "PS4=changed",
    "HISTFILE=/nonexistent_c12/h",
    "declare -n nr=v1; nr=via_nameref",
    "assoc[k]=changed",
    "unset 'assoc[k]'",
    "unset 'arr[0]'",
    "SECONDS=1000",
    "OLDPWD=/nonexistent_c12",
    "getopts ab: opt -b val; getopts ab: opt -b val",
    "declare -u upper=abc",
    "export -n v4",
    "v4=reexported",
    "local lv=1 2>/dev/null",
    "FUNCNEST=3",
    "BASH_ARGV0=renamed",
    "set -o vi",
    "shopt -s extdebug 2>/dev/null",
    "enable -n probe",
    "trap 'echo d' DEBUG",
    "trap 'echo r' RETURN",
    "trap 'probe leaked_exit' EXIT",
    "shopt -so noclobber",
    "set -C",
    "set -f",
    "set -E -T",
    "set -a",
    "set +B",
    "shopt -s globstar dotglob nocaseglob nocasematch",
    "shopt -u sourcepath",
    "gf12() { declare -g v1=fromfunc; declare -g v10=new10; }; gf12",
    "OPTIND=3",
    "OPTERR=0",
    "read -a arr <<< 'r1 r2'",
    "mapfile -t arr < <(echo m2)",
    "readonly arr",
    "declare -r assoc",
    "trap 'echo e' ERR",
    "trap '' INT",
    "complete -F fn1 cmdx",
    "cd ..",
    "PWD=/nonexistent_c12",
    "unset PWD",
    "unset -f fn2; unset v4",
    "function fn1 { echo redefined; }",
    "alias a0='echo changed'",
    "unalias -a",
    "set --",
    "shift 2",
    "exec 5>>other5.txt",
    "exec 6<&0",
    "exec 3<>rw3.txt",
    "exec 5>&1",
    "hash xtrue",
    "PATH=/nonexistent_c12",
    "let 'v6+=1'",
    "printf -v 'arr[2]' q",
    "typeset -x v2",
    "export v7=seven",
    "eval 'alias a2=x; fn9() { :; }'",
    "command cd /",
    "builtin cd sub",
    "pushd -n / >/dev/null",
    "declare -a v1",
    "declare -A newmap=([x]=y)",
    "v4+=appended",
    "declare +i v6; v6=text",
    "unset -n nref",
    "set -o errexit",
    "set -o noclobber; echo x > keep5.txt",
    "trap 'probe usr1b' USR1",
    "trap -- - EXIT USR1",
    "enable -n cd; enable -n pushd",
    ". ./missing_c12.sh",
    ": ${UNSET_C12?boom}",
    "cd /nonexistent_c12",
    "v5=again",
    "echo $((1/0))",
    "nosuchcmd_c12",
    "shift 9",
    "readonly v1; v1=again",
    "< missing_c12.txt",
    "< sub",
    "printf '\\xff\\xfe\\n'",
    "echo visible_c12",
    "exec -a othername xtrue",
    "exec xtrue",
];

pub const PROCESS_WIDE: &[&str] = &["umask 077", "ulimit -S -n 768"];

fn neutralise(m: &str) -> String {
    // same shape (one simple command), no effect
    let _ = m;
    ":".to_string()
}

/// Known finding: `$(< file)` with a file that cannot be read raises an error that leaves the
/// substitution (the enclosing command, list or script is abandoned).
fn bare_redirect_shape(case: &Case) -> bool {
    let bare = |c: &Context, ms: &[String]| matches!(c, Context::CmdSubst | Context::Backquote) && ms.len() == 1 && ms[0].starts_with("< ");
    bare(&case.context, &case.mutators) || case.second.as_ref().is_some_and(|(c, ms)| bare(c, ms))
}

fn ctx_text(ctx: &Context, body: &str, idx: usize) -> (String, String) {
    // returns (definitions, command)
    // nobody reads a coprocess's output here: a body that prints would block on a small pipe
    let quiet;
    let body = if matches!(ctx, Context::Coproc | Context::CoprocSimple) {
        quiet = body.replace("printf '\\xff\\xfe\\n'", ":").replace("echo visible_c12", ":");
        quiet.as_str()
    } else {
        body
    };
    match ctx {
        Context::Subshell => (String::new(), format!("( {body} )")),
        Context::NestedSubshell => (String::new(), format!("( ( {body} ) )")),
        Context::ParenAfterArith => (String::new(), format!("((v6=v6)); ( ({body}) )")),
        Context::CmdSubst => (String::new(), format!("cs{idx}=$( {body} )")),
        Context::Backquote => (String::new(), format!("bq{idx}=`{body}`")),
        Context::PipeStageBrace => (String::new(), format!("{{ {body}; }} | simcat >/dev/null")),
        Context::PipeStageFunction => (format!("mf{idx}() {{ {body}; }}\n"), format!("mf{idx} | simcat >/dev/null")),
        Context::PipeStageMiddle => (String::new(), format!("simseq 2 | {{ {body}; simcat >/dev/null; }} | simcat >/dev/null")),
        Context::Background => (String::new(), format!("{{ {body}; }} &")),
        Context::BackgroundFunction => (format!("bf{idx}() {{ {body}; }}\n"), format!("bf{idx} &")),
        Context::ProcSubstIn => (String::new(), format!("simcat < <( {body} ) >/dev/null")),
        // the reader drains its input first, so that the parent's own write never meets EPIPE
        Context::ProcSubstOut => (String::new(), format!("simseq 1 > >( simcat >/dev/null; {body} )")),
        Context::Coproc => (String::new(), format!("coproc {{ :; {body}; }}")),
        Context::PipeStageSimple | Context::PipeStageSimpleMiddle => {
            // only the first mutator; `;`-joined text would end the pipeline
            let first = body.split("; ").next().unwrap_or(":");
            let ok = first.matches('\'').count() % 2 == 0 && !first.contains("()") && !first.starts_with("function ");
            let stage = if ok { first } else { ":" };
            if *ctx == Context::PipeStageSimple {
                (String::new(), format!("{stage} | simcat >/dev/null"))
            } else {
                (String::new(), format!("simseq 2 | {stage} | simcat >/dev/null"))
            }
        }
        Context::CoprocSimple => {
            // only the first mutator, and only if it is a bare simple command
            let first = body.split("; ").next().unwrap_or(":");
            let simple = !first.contains("()") && !first.starts_with("function ") && first.matches('\'').count() % 2 == 0 && !first.starts_with("((") && !first.starts_with('.') && !first.contains("<<<");
            // (a neutralised mutator is `:`; the body must be a word the parser takes as a command)
            // the trailing `;` keeps a following `{ ...; }` line from being taken as the body of
            // `coproc NAME`
            (String::new(), format!("coproc {} ;", if simple && first != ":" { first } else { "true" }))
        }
    }
}

pub fn render(case: &Case, neutral: bool) -> String {
    let join = |ms: &[String]| -> String {
        ms.iter().map(|m| if neutral { neutralise(m) } else { m.clone() }).collect::<Vec<_>>().join("; ")
    };
    let mut s = String::from(PREFIX);
    for o in &case.parent_opts {
        s.push_str(o);
        s.push('\n');
    }
    let (defs, cmd) = ctx_text(&case.context, &join(&case.mutators), 0);
    // function definitions holding mutators must not differ in the parent's function table:
    // the neutral run defines the same names with neutral bodies, and the snapshot masks them
    s.push_str(&defs);
    let mut cmds = vec![cmd];
    if let Some((c2, m2)) = &case.second {
        let (d2, cmd2) = ctx_text(c2, &join(m2), 1);
        s.push_str(&d2);
        cmds.push(cmd2);
    }
    // launch the background context first so that it overlaps with the other one
    let mut inner = String::new();
    for c in &cmds {
        inner.push_str(c);
        inner.push('\n');
    }
    if case.wait_job_spec {
        inner.push_str("wait %1\n");
    }
    if case.in_loop_function {
        s.push_str(&format!("pf() {{\nfor q in 1 2; do\n{inner}probe inloop\ndone\nprobe infunc\n}}\npf\nprobe afterfunc\n"));
    } else {
        s.push_str(&inner);
        s.push_str("probe afterctx\n");
    }
    for a in &case.parent_activity {
        s.push_str(a);
        s.push('\n');
    }
    s.push_str("wait\nsimsnap end\n");
    s
}

pub struct C12;

fn fnv(s: &str) -> u64 {
    let mut h = 0xcbf2_9ce4_8422_2325u64;
    for b in s.bytes() {
        h ^= b as u64;
        h = h.wrapping_mul(0x0000_0100_0000_01B3);
    }
    h
}

const CONTEXTS: &[Context] = &[
    Context::Subshell,
    Context::NestedSubshell,
    Context::ParenAfterArith,
    Context::CmdSubst,
    Context::Backquote,
    Context::PipeStageBrace,
    Context::PipeStageFunction,
    Context::PipeStageMiddle,
    Context::Background,
    Context::BackgroundFunction,
    Context::ProcSubstIn,
    Context::ProcSubstOut,
    Context::Coproc,
    Context::CoprocSimple,
    Context::PipeStageSimple,
    Context::PipeStageSimpleMiddle,
];

fn gen_cfg(rng: &mut Rng) -> SimConfig {
    let mut cfg = SimConfig::default();
    cfg.seed = rng.next();
    cfg.capacity = *rng.pick(&[1usize, 16, 4096, 65536]);
    cfg.strategy = match rng.below(7) {
        0..=1 => Strategy::Uniform,
        2 => Strategy::RunLong,
        3 => Strategy::Sticky(rng.range(40, 95) as u8),
        4 => Strategy::Starve(rng.below(4) as u8),
        5 => Strategy::HighestId,
        _ => Strategy::Pct { d: 2, horizon: 150 },
    };
    cfg.budget = 30_000;
    cfg.workers = *rng.pick(&[None, None, None, Some(1usize), Some(2)]);
    cfg
}

impl C12 {
    fn gen_case(&self, seed: u64, _tier: Tier) -> Case {
        let mut rng = Rng::new(seed);
        let class = if rng.below(8) == 0 { "process-wide" } else if rng.below(4) == 0 { "concurrent" } else { "single" }.to_string();
        let context = rng.pick(CONTEXTS).clone();
        let nm = rng.range(1, 4) as usize;
        let mut mutators: Vec<String> = (0..nm).map(|_| rng.pick(MUTATORS).to_string()).collect();
        if class == "process-wide" {
            let pos = rng.below(mutators.len() as u64 + 1) as usize;
            mutators.insert(pos, rng.pick(PROCESS_WIDE).to_string());
        }
        let second = if class == "concurrent" {
            let c2 = rng.pick(&[Context::Background, Context::BackgroundFunction, Context::Coproc, Context::ProcSubstOut]).clone();
            let m2: Vec<String> = (0..rng.range(1, 3)).map(|_| rng.pick(MUTATORS).to_string()).collect();
            Some((c2, m2))
        } else {
            None
        };
        let acts = ["pa1=parent", "pa2=$v1", "cd sub; cd ..", "fnp() { echo p; }", "set -o noclobber", "alias ap='echo p'", "echo parent >/dev/null", "probe parent"];
        let parent_activity: Vec<String> = (0..rng.below(3)).map(|_| rng.pick(&acts).to_string()).collect();
        let front_end = match rng.below(5) {
            0 => FrontEnd::Stdin,
            1 => FrontEnd::ScriptFile,
            _ => FrontEnd::DashC,
        };
        let cfg = gen_cfg(&mut rng);
        let cfg_b = gen_cfg(&mut rng);
        let wait_job_spec = rng.below(3) == 0;
        let in_loop_function = rng.below(4) == 0;
        let parent_opts: Vec<String> = if rng.below(3) == 0 {
            let all = ["set -o pipefail", "shopt -s lastpipe", "set -E", "set -T", "shopt -s extglob", "set -o noclobber", "set -o posix"];
            let k = rng.range(1, 2);
            (0..k).map(|_| rng.pick(&all).to_string()).collect()
        } else {
            vec![]
        };
        let via_entry = rng.below(6) == 0;
        Case { class, context, mutators, second, parent_activity, wait_job_spec, in_loop_function, parent_opts, via_entry, front_end, cfg, cfg_b }
    }
}

fn strip_volatile(v: &mut Value) {
    match v {
        Value::Object(o) => {
            // source positions of the command being executed differ between the two texts
            o.remove("current");
            o.remove("entry");
            o.remove("loc");
            for (_, x) in o.iter_mut() {
                strip_volatile(x);
            }
        }
        Value::Array(a) => {
            for x in a {
                strip_volatile(x);
            }
        }
        _ => {}
    }
}

fn mask_snapshot(v: &mut Value) {
    strip_volatile(v);
    // the functions that only carry the mutators (mf*/bf*) differ by construction
    // the coprocess's job number is documented parent state and depends on which earlier jobs
    // have already been swept
    remove_keys_with_prefix(v, &["COPROC_PID"]);
    // what a command substitution printed flows back by design
    remove_keys_with_prefix(v, &["cs0", "cs1", "bq0", "bq1"]);
    if let Some(funcs) = v.pointer_mut("/funcs") {
        remove_keys_with_prefix(funcs, &["mf0", "mf1", "bf0", "bf1", "pf"]);
    }
}

fn remove_keys_with_prefix(v: &mut Value, names: &[&str]) {
    match v {
        Value::Object(o) => {
            for n in names {
                o.remove(*n);
            }
            for (_, x) in o.iter_mut() {
                remove_keys_with_prefix(x, names);
            }
        }
        Value::Array(a) => {
            for x in a {
                remove_keys_with_prefix(x, names);
            }
        }
        _ => {}
    }
}

fn snap_of(r: &runner::RunResult) -> Option<Value> {
    r.events.iter().find_map(|e| match &e.kind {
        EventKind::Probe { tag, extra, depth, .. } if tag == "snap:end" && *depth == 0 => extra.first().and_then(|s| serde_json::from_str(s).ok()),
        _ => None,
    })
}

pub fn judge(case: &Case) -> Verdict {
    let script_a = render(case, false);
    let script_b = render(case, true);
    let files = vec![
        ("src.sh".to_string(), "v1=sourced\nsrcfn() { :; }\n".to_string()),
        ("sub/.keep".to_string(), String::new()),
        ("sub2/.keep".to_string(), String::new()),
        ("sub2/src.sh".to_string(), "v1=sourced\nsrcfn() { :; }\n".to_string()),
    ];
    let mut v = Verdict::default();
    v.class_name = case.class.clone();
    v.case_key = fnv(&script_a);
    v.nontrivial = true;
    let viol = |class: &str, detail: String, shape: Option<&str>| Violation { class: class.to_string(), detail, known_shape: shape.map(String::from) };

    let mut snaps = vec![];
    let mut tagseqs: Vec<Vec<String>> = vec![];
    for (script, cfg) in [(&script_a, &case.cfg), (&script_b, &case.cfg_b)] {
        let mut spec = RunSpec::new(script.clone(), case.front_end.clone(), cfg.clone());
        spec.needs_dir = true;
        spec.files = files.clone();
        spec.via_entry = case.via_entry;
        let r = runner::run(&spec);
        v.hashes.push(r.loghash);
        v.shapes.push(r.shapehash);
        v.runs += 1;
        v.decisions += r.decisions;
        v.stats.merge(&r.stats);
        if r.harness_error.is_some() {
            v.harness_error = r.harness_error.clone();
            return v;
        }
        match &r.abort {
            Some(Abort::Deadlock { main_done: true, .. }) => v.notes.push("orphan tasks blocked after the shell finished".into()),
            Some(Abort::Deadlock { detail, .. }) => {
                v.violation = Some(viol("C12/deadlock", format!("{detail} script={script:?}"), None));
                return v;
            }
            Some(Abort::Budget { detail, .. }) => {
                v.violation = Some(viol("C12/livelock", format!("{detail} script={script:?}"), None));
                return v;
            }
            Some(Abort::Panic { detail }) => {
                v.violation = Some(viol("C12/panic", format!("{detail} script={script:?}"), None));
                return v;
            }
            None => {}
        }
        let Some(mut s) = snap_of(&r) else {
            // the parent never reached its snapshot: a subshell's `exit` (or a fatal error in
            // it) ended the parent
            v.violation = Some(viol(
                "C12/leak/parent-ended",
                format!("parent did not reach its final snapshot; status={:?} stderr={:?} script={script:?}", r.status, String::from_utf8_lossy(&r.err)),
                if bare_redirect_shape(case) { Some("bare-input-redirect-error-escapes-substitution") } else { None },
            ));
            return v;
        };
        mask_snapshot(&mut s);
        snaps.push(s);
        tagseqs.push(
            r.events
                .iter()
                .filter_map(|e| match &e.kind {
                    EventKind::Probe { tag, depth, .. } if *depth == 0 && e.pid == 0 && !tag.starts_with("snap:") => Some(tag.clone()),
                    _ => None,
                })
                .collect(),
        );
    }
    // control flow is state too: the parent must run the same commands in both runs
    if tagseqs[0] != tagseqs[1] {
        // `( ( M ) )` parsed as arithmetic: a syntax/evaluation error in one of the two texts
        // aborts the enclosing function in that run only
        let spaced = matches!(case.context, Context::NestedSubshell | Context::ParenAfterArith)
            || (case.context == Context::Subshell && case.mutators.first().is_some_and(|m| m.starts_with("((")));
        v.violation = Some(Violation {
            class: "C12/leak/control-flow".into(),
            detail: format!("the parent's own probes differ: {:?} with mutators vs {:?} without; script={script_a:?}", tagseqs[0], tagseqs[1]),
            known_shape: if spaced {
                Some("spaced-double-paren-parsed-as-arithmetic".into())
            } else if bare_redirect_shape(case) {
                Some("bare-input-redirect-error-escapes-substitution".into())
            } else {
                None
            },
        });
        return v;
    }
    let mut diffs = vec![];
    runner::json_diff(&snaps[0], &snaps[1], "", &mut diffs);
    if !diffs.is_empty() {
        let only_umask = diffs.iter().all(|d| d.starts_with("x_proc.umask"));
        let only_rlimit = diffs.iter().all(|d| d.starts_with("x_proc.rlimit"));
        let only_proc = diffs.iter().all(|d| d.starts_with("x_proc.umask") || d.starts_with("x_proc.rlimit"));
        let has_umask = case.mutators.iter().any(|m| m.starts_with("umask"));
        let has_ulimit = case.mutators.iter().any(|m| m.starts_with("ulimit"));
        // shapes in which a `(` token directly follows another `(` token separated by a blank
        let spaced_parens = matches!(case.context, Context::NestedSubshell | Context::ParenAfterArith)
            || (case.context == Context::Subshell && case.mutators.first().is_some_and(|m| m.starts_with("((")));
        let only_env = diffs.iter().all(|d| d.starts_with("env."));
        let (class, shape) = if spaced_parens && only_env {
            // `( ( M ) )` is parsed as the arithmetic command `(( M ))`, which can only assign
            // variables of the parent
            ("C12/leak/env".to_string(), Some("spaced-double-paren-parsed-as-arithmetic"))
        } else if bare_redirect_shape(case) && diffs.iter().all(|d| d.starts_with("env.entry_count")) {
            // the assignment that holds the substitution was abandoned with it
            ("C12/leak/env".to_string(), Some("bare-input-redirect-error-escapes-substitution"))
        } else if only_umask && has_umask {
            ("C12/leak/umask".to_string(), Some("umask-is-process-wide"))
        } else if only_rlimit && has_ulimit {
            ("C12/leak/ulimit".to_string(), Some("ulimit-is-process-wide"))
        } else if only_proc && has_umask && has_ulimit {
            ("C12/leak/umask+ulimit".to_string(), Some("umask-is-process-wide"))
        } else {
            let first = diffs.iter().find(|d| !d.starts_with("x_proc.umask") && !d.starts_with("x_proc.rlimit")).unwrap_or(&diffs[0]);
            let top = first.split(['.', ':', '[']).next().unwrap_or("state").to_string();
            (format!("C12/leak/{top}"), None)
        };
        v.violation = Some(viol(&class, format!("parent state differs from the run without mutators at: {diffs:?}; script={script_a:?}"), shape));
    }
    v
}

impl Check for C12 {
    fn id(&self) -> &'static str {
        "C12"
    }
    fn level(&self) -> &'static str {
        "exploration"
    }
    fn engine(&self) -> &'static str {
        "isolation"
    }
    fn generate(&self, seed: u64, tier: Tier) -> Value {
        serde_json::to_value(self.gen_case(seed, tier)).unwrap_or(Value::Null)
    }
    fn execute(&self, case: &Value) -> Verdict {
        match serde_json::from_value::<Case>(case.clone()) {
            Ok(c) => judge(&c),
            Err(e) => Verdict { harness_error: Some(format!("bad case: {e}")), ..Default::default() },
        }
    }
    fn exhaustive(&self, tier: Tier) -> Vec<Value> {
        // every (context, single mutator) pair once, under a plain schedule
        let mut out = vec![];
        let muts: Vec<&str> = MUTATORS.iter().chain(PROCESS_WIDE.iter()).copied().collect();
        for (ci, c) in CONTEXTS.iter().enumerate() {
            for (mi, m) in muts.iter().enumerate() {
                if tier == Tier::Quick && (ci * 7 + mi) % 3 != 0 {
                    continue;
                }
                let mut cfg = SimConfig::default();
                cfg.seed = (ci * 1000 + mi) as u64;
                cfg.strategy = Strategy::Uniform;
                cfg.capacity = 64;
                cfg.budget = 30_000;
                let case = Case {
                    class: "pairs".into(),
                    context: c.clone(),
                    mutators: vec![m.to_string()],
                    second: None,
                    parent_activity: vec![],
                    wait_job_spec: (ci + mi) % 2 == 0,
                    in_loop_function: (ci + mi) % 5 == 0,
                    parent_opts: if (ci + mi) % 4 == 1 { vec!["set -o pipefail".to_string()] } else { vec![] },
                    via_entry: false,
                    front_end: FrontEnd::DashC,
                    cfg: cfg.clone(),
                    cfg_b: cfg,
                };
                out.push(serde_json::to_value(case).unwrap_or(Value::Null));
            }
        }
        out
    }
    fn exhaustive_note(&self, tier: Tier) -> Option<String> {
        Some(if tier == Tier::Thorough { "every (context, single mutator) pair".to_string() } else { "one third of the (context, single mutator) pairs".to_string() })
    }
    fn shrink(&self, case: &Value) -> Vec<Value> {
        let Ok(c) = serde_json::from_value::<Case>(case.clone()) else { return vec![] };
        let mut out: Vec<Case> = vec![];
        if c.second.is_some() {
            let mut d = c.clone();
            d.second = None;
            out.push(d);
        }
        for i in 0..c.mutators.len() {
            if c.mutators.len() > 1 {
                let mut d = c.clone();
                d.mutators.remove(i);
                out.push(d);
            }
        }
        if let Some((c2, m2)) = &c.second {
            for i in 0..m2.len() {
                if m2.len() > 1 {
                    let mut d = c.clone();
                    let mut m = m2.clone();
                    m.remove(i);
                    d.second = Some((c2.clone(), m));
                    out.push(d);
                }
            }
        }
        for i in 0..c.parent_activity.len() {
            let mut d = c.clone();
            d.parent_activity.remove(i);
            out.push(d);
        }
        if c.context != Context::Subshell {
            let mut d = c.clone();
            d.context = Context::Subshell;
            out.push(d);
        }
        if c.wait_job_spec {
            let mut d = c.clone();
            d.wait_job_spec = false;
            out.push(d);
        }
        if c.in_loop_function {
            let mut d = c.clone();
            d.in_loop_function = false;
            out.push(d);
        }
        for i in 0..c.parent_opts.len() {
            let mut d = c.clone();
            d.parent_opts.remove(i);
            out.push(d);
        }
        if c.cfg.strategy != Strategy::LowestId {
            let mut d = c.clone();
            d.cfg.strategy = Strategy::LowestId;
            d.cfg_b.strategy = Strategy::LowestId;
            out.push(d);
        }
        if c.front_end != FrontEnd::DashC {
            let mut d = c.clone();
            d.front_end = FrontEnd::DashC;
            out.push(d);
        }
        out.into_iter().filter_map(|c| serde_json::to_value(c).ok()).collect()
    }
    fn rule(&self) -> String {
        format!(
            "every (context, single mutator) pair of {} subshell contexts x {} mutators first (1/3 of them in quick), then seeded cases: one context (optionally with a second background/coproc/process-substitution context alive at the same time) holding 1-5 mutators, plus seeded parent activity, each executed twice (with the mutators / with `:` in their place) under independent seeded schedules and pipe capacities; the parent's final full snapshot (serde dump of Shell + descriptor identities + builtin enable flags + process umask/rlimits/cwd/environment) must be identical; every case is non-trivial; distinct = distinct script text",
            CONTEXTS.len(),
            MUTATORS.len() + PROCESS_WIDE.len()
        )
    }
    fn components(&self) -> Value {
        json!({
            "real": ["brush-core Shell::clone, interp.rs (Subshell, pipeline stages, background jobs, process substitution, coproc), commands.rs command substitution", "brush-parser subshell vs arithmetic-command parenthesis shapes", "brush-builtins (declare unset set shopt alias trap cd pushd umask ulimit exec exit hash enable read mapfile eval . getopts)"],
            "stub": ["OS pipes -> simulated pipes", "tokio scheduler -> token scheduler", "external commands: none used", "the final stage of a pipeline is not in the statement's list and is not judged"]
        })
    }
    fn assumptions(&self) -> Vec<String> {
        vec![
            "the parent's snapshot is schedule-independent by construction, so the two runs may use different schedules".into(),
            "masked from the comparison: $? / PIPESTATUS / status change counter / stopwatch fields, source positions of the executing command, and the helper functions that only carry the mutators".into(),
            "process-wide umask and soft RLIMIT_NOFILE/RLIMIT_CORE are saved before and restored after every simulated run".into(),
        ]
    }
}
