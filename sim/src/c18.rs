//! C18 — long sessions do not leak descriptors, tasks or internal stacks.
//!
//! A command sequence with fault leaves is executed N times in one shell; resource counters
//! are sampled at quiescence after every iteration and must stay flat; the k-th iteration must
//! behave like the first. In the fault class one injected failure (open / pipe / file write) is
//! planted at every position the first iteration performs such an operation, and the samples
//! are compared with the fault-free run.

use serde::{Deserialize, Serialize};
use serde_json::{Value, json};

use crate::check::{Check, Tier, Verdict, Violation};
use crate::runner::{self, FrontEnd, Resources, RunResult, RunSpec};
use crate::world::{Abort, ErrKind, EventKind, Fault, Rng, SimConfig, Strategy};

#[derive(Clone, Debug, Serialize, Deserialize)]
pub struct Case {
    pub class: String,
    /// indices into LEAVES
    pub seq: Vec<usize>,
    pub iterations: u32,
    /// true: the text is repeated and fed on stdin; false: a `while` loop calling a function
    pub repeated_text: bool,
    pub front_end: FrontEnd,
    pub faults: bool,
    #[serde(default)]
    pub via_entry: bool,
    pub cfg: SimConfig,
}

pub struct Leaf {
    pub text: &'static str,
    /// ends a non-interactive shell with a fatal error: always wrapped in `( )`
    pub fatal: bool,
    pub coproc: bool,
}

const fn leaf(text: &'static str) -> Leaf {
    Leaf { text, fatal: false, coproc: false }
}
const fn fatal(text: &'static str) -> Leaf {
    Leaf { text, fatal: true, coproc: false }
}

pub const LEAVES: &[Leaf] = &[
    leaf("echo ok"),
    leaf("simcat < nonexistent_file"),
    leaf("echo x > /nonexistent_dir_c18/f"),
    leaf("nosuchcmd_c18"),
    leaf("nosuchcmd_c18 arg > out1.txt 2>&1"),
    fatal(": ${UNSET_C18?msg}"),
    leaf("echo $((1/0))"),
    leaf("RO=2"),
    leaf("RO=3 fok"),
    leaf("V=x ffail"),
    leaf("V=x fnocmd"),
    leaf("V=x W=y fparam"),
    leaf("fbreak2"),
    leaf("freturn_nested"),
    leaf("while true; do { if true; then break; fi; }; done"),
    leaf("for a in 1 2; do for b in 1 2; do continue 2; done; done"),
    leaf("simcat <(nosuchcmd_c18) </dev/null"),
    leaf("simcat < <(simexit 3)"),
    leaf("simseq 2 > >(simcat >/dev/null)"),
    leaf("{ echo a; } > /nonexistent_dir_c18/x"),
    leaf("for i in 1; do :; done < missing_file"),
    leaf("x=$(nosuchcmd_c18)"),
    leaf("x=$(exit 3)"),
    leaf("x=$(simseq 3 | simcat)"),
    leaf("simcat <<EOF >/dev/null\nhere $x\nEOF"),
    leaf("{ :; } & wait"),
    leaf("{ nosuchcmd_c18; } & wait"),
    leaf("simseq 3 | simhead 1 >/dev/null"),
    leaf("simseq 3 | fcat | { simcat; } >/dev/null"),
    leaf("eval 'nosuchcmd_c18'"),
    leaf(". ./missing.sh"),
    fatal(". ./bad.sh"),
    leaf(". ./good.sh"),
    leaf("exec 7>f7.txt; exec 7>&-"),
    leaf("exec 8< missing_file"),
    leaf("( exit 3 )"),
    leaf("( nosuchcmd_c18 )"),
    fatal("set -u; echo $UNSET_C18; set +u"),
    leaf("trap 'true' ERR; false; trap - ERR"),
    leaf("flocal"),
    leaf("fdeep 3"),
    leaf("echo data > out2.txt; simcat < out2.txt > /dev/null"),
    leaf("cd / ; cd \"$OLDPWD\""),
    leaf("x=${y:-$(simexit 2)}"),
    leaf("[[ a == b ]] || [ -f nonexistent ]"),
    leaf("case $(echo q) in q) simexit 4;; esac"),
    leaf("read v < missing_file"),
    leaf("mapfile -t arr < <(simseq 2)"),
    leaf("time -p true 2>/dev/null"),
    leaf("! simseq 2 | simexit 1 drain"),
    leaf("fredir_bad"),
    leaf("fredir_bad a b"),
    leaf("fredir_in"),
    leaf("fredir_ok"),
    leaf("V=x fredir_bad"),
    leaf("fredir_arg /nonexistent_dir_c18/o"),
    leaf("fredir_arg out4.txt"),
    leaf("fredir_bad | simcat"),
    leaf("./nonexistent_cmd_c18"),
    leaf("V=x ./nonexistent_cmd_c18 arg"),
    leaf("./noexec.txt"),
    leaf("V=x W=y ./noexec.txt"),
    leaf("fslash"),
    leaf("V=x fslash"),
    leaf("x=$(./nonexistent_cmd_c18)"),
    leaf("./nonexistent_cmd_c18 | simcat"),
    leaf("read v <<< \"here string\""),
    leaf("trap 'true' RETURN; fok; trap - RETURN"),
    leaf("trap 'true' DEBUG; true; trap - DEBUG"),
    leaf("declare -A m18=([a]=1 [b]=2); unset m18"),
    leaf("fnameref"),
    leaf("fdeep 25"),
    leaf("eval 'fev() { return 3; }; fev'"),
    leaf(". ./good.sh a b"),
    leaf("( set -e; false; echo unreachable )"),
    leaf("x=$(x=$(x=$(echo deep)))"),
    leaf("{ { simseq 2 | simcat; } | simcat; } > /dev/null"),
    leaf("for w in $(simseq 3); do :; done"),
    leaf("while read l; do :; done < <(simseq 3)"),
    leaf("printf -v pv '%s' x; unset pv"),
    leaf("getopts ab: o -a; OPTIND=1"),
    leaf("wait; jobs > /dev/null"),
    leaf("fsrcdecl"),
    leaf("V=x fsrcdecl"),
    leaf("fsrcdecl | simcat"),
    leaf("xtrue"),
    leaf("xexit 3"),
    leaf("V=x xexit 2"),
    leaf("xseq 3 | xhead 1 > /dev/null"),
    leaf("xseq 40 | xhead 1 | xcat > /dev/null"),
    leaf("xcat < nonexistent_file"),
    leaf("x=$(xseq 2 | xcat)"),
    leaf("xcat < /dev/null > /nonexistent_dir_c18/x"),
    leaf("xsleep 1 & wait"),
    leaf("fcat < /dev/null | xcat | fcat > /dev/null"),
    leaf("xcat <(xseq 2) < /dev/null"),
    Leaf { text: "coproc { simexit 2; }; wait", fatal: false, coproc: true },
    Leaf { text: "coproc CP { :; }; wait", fatal: false, coproc: true },
    // rarer failures (appended: corpus cases index this table)
    leaf("flocalro"),
    leaf("V=x flocalro"),
    leaf("for ((i18=0; i18<1/0; i18++)); do :; done"),
    leaf("fevbreak"),
    leaf("fexecbad"),
    leaf("V=x fexecbad"),
    leaf("fsrcret"),
    leaf("V=x fsrcret a"),
    leaf("case x in $(nosuchcmd_c18)) :;; esac"),
    // (brush has no `select`)
    leaf("while false; do :; done < /dev/null 2>&99"),
    leaf("trap 'false' RETURN; fok; trap - RETURN"),
    leaf("trap 'nosuchcmd_c18' DEBUG; true; trap - DEBUG"),
    leaf("trap 'nosuchcmd_c18' ERR; false; trap - ERR"),
    leaf("command -p nosuchcmd_c18"),
    leaf("builtin nosuchbuiltin_c18"),
    leaf("declare -A ma18; ma18[1/0]=x; unset ma18"),
    leaf("ia18=(); ia18[1/0]=x; unset ia18"),
    leaf("unset RO"),
    leaf("local zz18=1"),
    leaf("shift 5"),
    leaf("cd /nonexistent_dir_c18"),
    leaf("pushd /nonexistent_dir_c18"),
    leaf("popd"),
    leaf("printf '%d\\n' abc"),
    leaf("read -u 99 v"),
    leaf("echo x >&99"),
    leaf("exec 98>&-"),
    fatal("V=x fheredoc"),
    leaf("fps"),
    leaf("V=x fps"),
    leaf("fretbad"),
    // (side finding: a `break` outside any loop, or `break N` with N beyond the loop depth, ends the script at top level)
    leaf("for b18 in 1; do fok; break; done"),
    leaf("fsrcbad"),
    leaf("V=x fsrcbad"),
    fatal("eval 'if'"),
    fatal("eval 'fbad18( {'"),
    leaf("let 1/0"),
    leaf("(( 1/0 ))"),
    leaf("declare -n nr18=nr18"),
    leaf("mapfile -t arr < missing_file"),
    leaf("type nosuchcmd_c18"),
    leaf("hash nosuchcmd_c18"),
    leaf("[ 1 -eq ]"),
    leaf("fok > /nonexistent_dir_c18/o 2>&1"),
    leaf("fok 2>&99"),
    leaf("x=$(fnocmd) y=$(ffail) fok"),
    leaf("RO=5 xtrue"),
    leaf("until false; do break; done > /nonexistent_dir_c18/x"),
    leaf("if nosuchcmd_c18; then :; elif ./noexec.txt; then :; fi"),
    leaf("flocalarr"),
    leaf("frecfail 4"),
    leaf("compgen -F nosuchfn_c18 x 2>/dev/null"),
    leaf("fcompbad() { COMPREPLY=($((1/0))); }; compgen -F fcompbad x 2>/dev/null"),
    leaf("trap 'echo errh18' ERR; false; trap - ERR"),
    leaf("ftrapret() { trap 'echo reth18' RETURN; }; ftrapret; trap - RETURN"),
    leaf("ftraperrret; trap - ERR"),
    leaf("V=x ftraperrret; trap - ERR"),
    leaf(". ./trapret.sh"),
    leaf("fsrctrapret"),
    leaf("pushd /nonexistent_dir_c18 2>/dev/null; pushd noexec.txt 2>/dev/null; dirs -c"),
    leaf("exec 3> >(simcat >/dev/null); echo via3 >&3; exec 3>&-"),
    leaf("exec 4< <(simseq 2); read v4 <&4; exec 4<&-"),
    leaf("xtrue & wait %+"),
    leaf("{ :; } & wait %%"),
    leaf("simexit 3 & wait %1"),
];

const SETUP: &str = "readonly RO=1\n\
fok() { return 0; }\n\
ffail() { return 1; }\n\
fnocmd() { nosuchcmd_c18; }\n\
fparam() { ( : ${UNSET_C18?inner} ); }\n\
fbreak2() { for a in 1 2; do for b in 1 2; do break 2; done; done; }\n\
freturn_nested() { for a in 1; do while true; do if true; then return 3; fi; done; done; }\n\
fcat() { simcat; }\n\
flocal() { local a=1 b=2; nosuchcmd_c18; }\n\
fdeep() { if [ $1 -gt 0 ]; then V=$1 fdeep $(($1-1)); else return 5; fi; }\n\
fslash() { ./nonexistent_cmd_c18; ./noexec.txt; }\n\
fsrcdecl() { . ./decl.sh; }\n\
fnameref() { local -n ref=RO; local a=1; nosuchcmd_c18; }\n\
fredir_bad() { echo x; } > /nonexistent_dir_c18/out\n\
fredir_in() { simcat; } < missing_file\n\
fredir_ok() { echo x; } > out3.txt\n\
fredir_arg() { echo x; } > \"$1\"\n\
flocalro() { local RO=5; echo unreachable; }\n\
fevbreak() { for a in 1 2; do for b in 1 2; do eval 'break 2'; done; done; }\n\
fexecbad() { exec 9< missing_file; }\n\
fsrcret() { . ./ret.sh; echo after; }\n\
fheredoc() { simcat <<EOF >/dev/null\n${UNSET_C18?in heredoc}\nEOF\n}\n\
fps() { simcat < <(nosuchcmd_c18); }\n\
fretbad() { return abc; }\n\
fsrcbad() { . ./missing.sh; }\n\
flocalarr() { local -a la=(1 2); local -A lm=([k]=v); la[1/0]=x; }\n\
ftraperrret() { trap 'return 9' ERR; false; echo after18; }\n\
fsrctrapret() { . ./trapret.sh; }\n\
frecfail() { local d=$1; if [ $d -gt 0 ]; then frecfail $((d-1)) > /dev/null; else nosuchcmd_c18 > /nonexistent_dir_c18/x; fi; }\n";

pub fn render(case: &Case) -> String {
    let mut s = String::from(SETUP);
    let body = |wrap_fatal: bool| -> String {
        let mut b = String::new();
        for (j, ix) in case.seq.iter().enumerate() {
            let l = &LEAVES[*ix % LEAVES.len()];
            if l.fatal && wrap_fatal {
                b.push_str(&format!("( {} )\n", l.text));
            } else {
                b.push_str(l.text);
                b.push('\n');
            }
            b.push_str(&format!("probe c{j}\n"));
        }
        b
    };
    s.push_str("simres it0\n");
    if case.repeated_text {
        for k in 1..=case.iterations {
            s.push_str(&body(true));
            s.push_str(&format!("simres it{k}\n"));
        }
    } else {
        s.push_str(&format!("iter() {{\n{}}}\n", body(true)));
        s.push_str(&format!("k=0\nwhile [ $k -lt {} ]; do\nk=$((k+1))\niter\nsimres it$k\ndone\n", case.iterations));
    }
    s
}

pub struct C18;

fn fnv(s: &str) -> u64 {
    let mut h = 0xcbf2_9ce4_8422_2325u64;
    for b in s.bytes() {
        h ^= b as u64;
        h = h.wrapping_mul(0x0000_0100_0000_01B3);
    }
    h
}

fn viol(class: &str, detail: String, shape: Option<&str>) -> Violation {
    Violation { class: class.to_string(), detail, known_shape: shape.map(String::from) }
}

impl C18 {
    fn gen_case(&self, seed: u64, tier: Tier) -> Case {
        let mut rng = Rng::new(seed);
        let class = match rng.below(10) {
            0 => "coproc",
            1..=3 => "fault-enumeration",
            _ => "fault-free",
        }
        .to_string();
        let n = rng.range(1, 8) as usize;
        let plain: Vec<usize> = (0..LEAVES.len()).filter(|i| !LEAVES[*i].coproc).collect();
        let mut seq: Vec<usize> = (0..n).map(|_| *rng.pick(&plain)).collect();
        if class == "coproc" {
            // every coprocess leaves two descriptors behind (known finding): leaves that name
            // fixed high descriptors would meet them after some dozens of iterations
            let low: Vec<usize> = plain.iter().copied().filter(|i| !LEAVES[*i].text.contains("99") && !LEAVES[*i].text.contains("98")).collect();
            for x in &mut seq {
                if !low.contains(x) {
                    *x = *rng.pick(&low);
                }
            }
            let cps: Vec<usize> = (0..LEAVES.len()).filter(|i| LEAVES[*i].coproc).collect();
            let pos = rng.below(seq.len() as u64 + 1) as usize;
            seq.insert(pos, *rng.pick(&cps));
        }
        let faults = class == "fault-enumeration";
        let iterations = if faults {
            3
        } else {
            *rng.pick(if tier == Tier::Thorough { &[2u32, 50, 50, 500] } else { &[2u32, 2, 10, 50] })
        };
        // (and the leaked descriptors must stay well below the shell's descriptor limit)
        let iterations = if class == "coproc" { iterations.min(50) } else { iterations };
        let repeated_text = rng.below(2) == 0;
        let front_end = if repeated_text {
            match rng.below(3) {
                0 => FrontEnd::ScriptFile,
                _ => FrontEnd::Stdin,
            }
        } else {
            match rng.below(3) {
                0 => FrontEnd::Stdin,
                1 => FrontEnd::ScriptFile,
                _ => FrontEnd::DashC,
            }
        };
        let mut cfg = SimConfig::default();
        cfg.seed = rng.next();
        cfg.capacity = *rng.pick(&[1usize, 8, 4096, 65536]);
        cfg.strategy = match rng.below(6) {
            0..=1 => Strategy::Uniform,
            2 => Strategy::RunLong,
            3 => Strategy::Sticky(80),
            4 => Strategy::HighestId,
            _ => Strategy::Starve(rng.below(3) as u8),
        };
        cfg.workers = *rng.pick(&[None, None, None, Some(1usize), Some(2)]);
        cfg.budget = 400 * (iterations as u64) * (seq.len() as u64 + 2) * 40 + 50_000;
        let via_entry = rng.below(6) == 0;
        Case { class, seq, iterations, repeated_text, front_end, faults, via_entry, cfg }
    }
}

struct Obs {
    samples: Vec<(String, Resources)>,
    /// per iteration: statuses at the c<j> probes
    statuses: Vec<Vec<u8>>,
    /// per iteration: stdout bytes produced
    outs: Vec<Vec<u8>>,
}

fn observe(r: &RunResult) -> Obs {
    let mut samples = vec![];
    let mut statuses: Vec<Vec<u8>> = vec![];
    let mut cur: Vec<u8> = vec![];
    let mut outs = vec![];
    let mut last_out = 0usize;
    for e in &r.events {
        if let EventKind::Probe { tag, status, extra, depth, .. } = &e.kind {
            if *depth != 0 {
                continue;
            }
            if let Some(t) = tag.strip_prefix("res:") {
                if let Some(res) = extra.first().and_then(|s| serde_json::from_str::<Resources>(s).ok()) {
                    if t != "it0" {
                        statuses.push(std::mem::take(&mut cur));
                        outs.push(r.out.get(last_out..res.out_len.min(r.out.len())).map(|s| s.to_vec()).unwrap_or_default());
                    }
                    last_out = res.out_len.min(r.out.len());
                    samples.push((t.to_string(), res));
                }
            } else if tag.starts_with('c') {
                cur.push(*status);
            }
        }
    }
    Obs { samples, statuses, outs }
}

fn res_diff(a: &Resources, b: &Resources) -> Vec<String> {
    let mut d = vec![];
    macro_rules! cmp {
        ($f:ident) => {
            if a.$f != b.$f {
                d.push(format!("{}: {} vs {}", stringify!($f), a.$f, b.$f));
            }
        };
    }
    cmp!(scopes);
    cmp!(frames);
    cmp!(shell_fds);
    cmp!(live_pipe_ends);
    cmp!(live_participants);
    cmp!(proc_fds);
    cmp!(jobs);
    cmp!(traps_active);
    cmp!(children_unreaped);
    d
}

fn abort_violation(r: &RunResult, what: &str, script: &str, has_coproc: bool) -> Option<Violation> {
    match &r.abort {
        None | Some(Abort::Deadlock { main_done: true, .. }) => None,
        Some(Abort::Deadlock { detail, .. }) => {
            let shape = if has_coproc { Some("coproc-leaves-fds-and-task") } else { None };
            Some(viol("C18/leak/task-never-finishes", format!("{what}: a task can never finish (sampled at quiescence): {detail}; script={script:?}"), shape))
        }
        Some(a) => Some(viol("C18/abort", format!("{what}: {a:?}; script={script:?}"), None)),
    }
}

pub fn judge(case: &Case) -> Verdict {
    let script = render(case);
    let files = vec![
        ("bad.sh".to_string(), "if true; then\n".to_string()),
        ("good.sh".to_string(), "gv=1\n".to_string()),
        ("noexec.txt".to_string(), "not a program\n".to_string()),
        ("ret.sh".to_string(), "local insrc=1\nreturn 4\necho unreachable\n".to_string()),
        ("trapret.sh".to_string(), "trap 'return 7' ERR\nfalse\necho aftersrc18\ntrap - ERR\n".to_string()),
        ("decl.sh".to_string(), "declare -a acc18\nacc18+=(x)\nlocal cnt18=1\ndeclare -i n18\nn18+=1\necho \"decl ${#acc18[@]} $n18 $cnt18\"\n".to_string()),
    ];
    let has_coproc = case.seq.iter().any(|i| LEAVES[*i % LEAVES.len()].coproc);
    let mut v = Verdict::default();
    v.class_name = case.class.clone();
    v.case_key = fnv(&format!("{:?}|{}|{}|{:?}", case.seq, case.iterations, case.repeated_text, case.front_end));
    v.nontrivial = case.seq.len() >= 2 || case.iterations >= 10;

    let mk = |cfg: &SimConfig| {
        let mut spec = RunSpec::new(script.clone(), case.front_end.clone(), cfg.clone());
        spec.files = files.clone();
        spec.needs_dir = true;
        spec.via_entry = case.via_entry;
        spec
    };
    let r = runner::run(&mk(&case.cfg));
    v.hashes.push(r.loghash);
    v.shapes.push(r.shapehash);
    v.runs += 1;
    v.decisions += r.decisions;
    v.stats.merge(&r.stats);
    if r.harness_error.is_some() {
        v.harness_error = r.harness_error.clone();
        return v;
    }
    if let Some(x) = abort_violation(&r, "fault-free", &script, has_coproc) {
        v.violation = Some(x);
        return v;
    }
    let o = observe(&r);
    if o.samples.len() != case.iterations as usize + 1 {
        v.violation = Some(viol(
            "C18/behaviour/session-ended-early",
            format!("expected {} samples, got {} (status {:?}, stderr tail {:?}); script={script:?}", case.iterations + 1, o.samples.len(), r.status, tail(&r.err)),
            None,
        ));
        return v;
    }
    // flat resources: every sample equals the one after iteration 1
    let first = &o.samples[1].1;
    for (tag, s) in o.samples.iter().skip(2) {
        let d = res_diff(first, s);
        if !d.is_empty() {
            let only_coproc = has_coproc && d.iter().all(|x| x.starts_with("shell_fds") || x.starts_with("live_pipe_ends") || x.starts_with("jobs") || x.starts_with("live_participants"));
            let shape = if only_coproc { Some("coproc-leaves-fds-and-task") } else { None };
            let class = format!("C18/leak/{}", d[0].split(':').next().unwrap_or("resource"));
            v.violation = Some(viol(&class, format!("after {tag} vs after it1: {d:?}; script={script:?}"), shape));
            return v;
        }
    }
    // the k-th iteration behaves like the first
    for k in 1..o.statuses.len() {
        if o.statuses[k] != o.statuses[0] {
            v.violation = Some(viol("C18/behaviour/iteration-differs", format!("statuses of iteration {} {:?} differ from iteration 1 {:?}; script={script:?}", k + 1, o.statuses[k], o.statuses[0]), None));
            return v;
        }
        if o.outs[k] != o.outs[0] {
            v.violation = Some(viol(
                "C18/behaviour/iteration-differs",
                format!("stdout of iteration {} {:?} differs from iteration 1 {:?}; script={script:?}", k + 1, String::from_utf8_lossy(&o.outs[k]), String::from_utf8_lossy(&o.outs[0])),
                None,
            ));
            return v;
        }
    }
    if o.samples[0].1.scopes != first.scopes || o.samples[0].1.frames != first.frames {
        v.stats.probe("first_iteration_changes_depth");
    }
    if case.iterations >= 50 {
        v.stats.probe("batch_of_50_or_more");
    }

    // fault enumeration over the operations of the first iteration
    if case.faults {
        // exactly the operations performed between the samples it0 and it1
        let (s0, s1) = (&o.samples[0].1, &o.samples[1].1);
        let mut plans: Vec<Fault> = vec![];
        for k in s0.opens..s1.opens.min(s0.opens + 24) {
            plans.push(Fault::Open { at: k, err: [ErrKind::Emfile, ErrKind::Enoent, ErrKind::Eacces][(k % 3) as usize].clone() });
        }
        for k in s0.pipe_calls..s1.pipe_calls.min(s0.pipe_calls + 16) {
            plans.push(Fault::Pipe { at: k, err: ErrKind::Emfile });
        }
        for k in s0.file_writes..s1.file_writes.min(s0.file_writes + 6) {
            plans.push(Fault::FileWrite { at: k, err: ErrKind::Enospc });
        }
        for k in s0.file_reads..s1.file_reads.min(s0.file_reads + 6) {
            plans.push(Fault::FileRead { at: k, err: ErrKind::Eio });
        }
        for plan in plans {
            let mut cfg = case.cfg.clone();
            cfg.faults = vec![plan.clone()];
            let rf = runner::run(&mk(&cfg));
            v.hashes.push(rf.loghash);
            v.shapes.push(rf.shapehash);
            v.runs += 1;
            v.decisions += rf.decisions;
            v.stats.merge(&rf.stats);
            if rf.harness_error.is_some() {
                v.harness_error = rf.harness_error.clone();
                return v;
            }
            if let Some(x) = abort_violation(&rf, &format!("with {plan:?}"), &script, has_coproc) {
                v.violation = Some(x);
                return v;
            }
            let of = observe(&rf);
            if of.samples.len() != o.samples.len() {
                // the injected failure ended the session (e.g. the script file could not be
                // opened, or a fatal redirect in script mode): nothing to compare
                v.stats.probe("fault_ended_session");
                continue;
            }
            for (i, (tag, s)) in of.samples.iter().enumerate().skip(1) {
                let d = res_diff(&o.samples[i].1, s);
                if !d.is_empty() {
                    let class = format!("C18/leak-after-fault/{}", d[0].split(':').next().unwrap_or("resource"));
                    v.violation = Some(viol(&class, format!("with {plan:?}: after {tag}: {d:?} (fault-free vs faulted); script={script:?}"), None));
                    return v;
                }
            }
            // iterations after the faulted one behave like a fault-free iteration
            if of.statuses.len() == o.statuses.len() && of.statuses.len() >= 3 {
                let last = of.statuses.len() - 1;
                if of.statuses[last] != o.statuses[last] || of.outs[last] != o.outs[last] {
                    v.violation = Some(viol(
                        "C18/behaviour/iteration-after-fault-differs",
                        format!("with {plan:?}: iteration {} statuses {:?} vs fault-free {:?}; script={script:?}", last + 1, of.statuses[last], o.statuses[last]),
                        None,
                    ));
                    return v;
                }
            }
        }
    }
    v
}

fn tail(b: &[u8]) -> String {
    let s = String::from_utf8_lossy(b);
    let n = s.len().saturating_sub(300);
    s[s.char_indices().map(|(i, _)| i).find(|i| *i >= n).unwrap_or(0)..].to_string()
}

impl Check for C18 {
    fn id(&self) -> &'static str {
        "C18"
    }
    fn level(&self) -> &'static str {
        "fault_enumeration"
    }
    fn engine(&self) -> &'static str {
        "leaks"
    }
    fn generate(&self, seed: u64, tier: Tier) -> Value {
        serde_json::to_value(self.gen_case(seed, tier)).unwrap_or(Value::Null)
    }
    fn execute(&self, case: &Value) -> Verdict {
        match serde_json::from_value::<Case>(case.clone()) {
            Ok(c) => judge(&c),
            Err(e) => Verdict { harness_error: Some(format!("bad case: {e}")), ..Default::default() },
        }
    }
    fn exhaustive(&self, tier: Tier) -> Vec<Value> {
        // every leaf alone, 3 iterations (thorough: in both repetition styles and with faults)
        let mut out = vec![];
        for i in 0..LEAVES.len() {
            let styles: &[(bool, FrontEnd, bool)] = if tier == Tier::Thorough {
                &[(true, FrontEnd::Stdin, true), (false, FrontEnd::DashC, true), (true, FrontEnd::ScriptFile, false)]
            } else {
                &[(true, FrontEnd::Stdin, false)]
            };
            for (rep, fe, faults) in styles {
                let mut cfg = SimConfig::default();
                cfg.seed = i as u64;
                cfg.capacity = 64;
                cfg.strategy = Strategy::Uniform;
                cfg.budget = 200_000;
                let case = Case {
                    class: if LEAVES[i].coproc { "coproc".into() } else { "single-leaf".into() },
                    seq: vec![i],
                    iterations: 3,
                    repeated_text: *rep,
                    front_end: fe.clone(),
                    faults: *faults,
                    via_entry: false,
                    cfg,
                };
                out.push(serde_json::to_value(case).unwrap_or(Value::Null));
            }
        }
        out
    }
    fn exhaustive_note(&self, tier: Tier) -> Option<String> {
        Some(if tier == Tier::Thorough { "every leaf alone, 3 iterations, in three repetition styles, two of them with fault enumeration".to_string() } else { "every leaf alone, 3 iterations, as repeated text on stdin".to_string() })
    }
    fn shrink(&self, case: &Value) -> Vec<Value> {
        let Ok(c) = serde_json::from_value::<Case>(case.clone()) else { return vec![] };
        let mut out: Vec<Case> = vec![];
        for i in 0..c.seq.len() {
            if c.seq.len() > 1 {
                let mut d = c.clone();
                d.seq.remove(i);
                out.push(d);
            }
        }
        if c.iterations > 3 {
            let mut d = c.clone();
            d.iterations = 3;
            out.push(d);
        }
        if c.faults {
            let mut d = c.clone();
            d.faults = false;
            out.push(d);
        }
        if c.cfg.strategy != Strategy::LowestId {
            let mut d = c.clone();
            d.cfg.strategy = Strategy::LowestId;
            out.push(d);
        }
        if c.front_end != FrontEnd::Stdin && c.repeated_text {
            let mut d = c.clone();
            d.front_end = FrontEnd::Stdin;
            out.push(d);
        }
        out.into_iter().filter_map(|c| serde_json::to_value(c).ok()).collect()
    }
    fn rule(&self) -> String {
        format!(
            "every one of {} command leaves alone first (3 iterations), then seeded sequences of 1-8 leaves (missing files, unwritable targets, unknown commands, parameter/arithmetic errors, readonly targets, return/break/continue out of nested constructs, failing functions called with temporary assignments, failing process substitutions, failing command substitutions, here-documents, background jobs, pipelines with early-exit consumers, eval/source of missing and broken files, exec descriptor open/close, subshells, traps, recursion, coproc) executed 2/10/50 times (500 in thorough) in one shell, either as repeated text (stdin or script file) or as a `while` loop calling a function (-c, script file, stdin); resources (scope depth, call-stack frames, active traps, persistent descriptor table size, live simulated pipe ends, live tasks, /proc/self/fd count, job table, directory stack) are sampled at quiescence after every iteration and must equal the sample after iteration 1, and per-command statuses and stdout of iteration k must equal iteration 1; in the fault class one failure is injected at every open/pipe/file-write position of the first iteration and all samples must equal the fault-free run's; non-trivial = at least 2 leaves or at least 10 iterations; distinct = distinct (sequence, iterations, style, front-end)",
            LEAVES.len()
        )
    }
    fn components(&self) -> Value {
        json!({
            "real": ["brush-core env.rs ScopeGuard / scopes, callstack.rs frames, commands.rs post_execute / invoke_shell_function, shell/execution.rs source_file push/pop, openfiles.rs Arc handles, interp.rs redirects/process substitution/coproc/here-documents, jobs.rs"],
            "stub": ["pipes between tasks -> simulated pipes (live endpoint counts are exact); here-document pipes and opened files are real descriptors counted through /proc/self/fd", "external children are simulated processes (real path search, compose_std_command, ChildProcess::wait/poll; no fork/exec): `no unreaped children` is the count of simulated children whose exit status was never collected, sampled with the other resources", "brush-core/src/sys/tokio_process.rs (real fork/exec and kernel reaping) is not exercised"]
        })
    }
    fn assumptions(&self) -> Vec<String> {
        vec![
            "sampling happens at quiescence (every other task finished); a task that can never finish is itself reported as a leak".into(),
            "injected faults are one-shot, so iterations after the faulted one must behave like fault-free ones".into(),
        ]
    }
}
