//! C15 — a program means the same however it is delivered and whatever was parsed before.
//!
//! Three facets: (a) delivery modes, (b) standard input as a stream (chunking, completeness,
//! end of input at every line boundary), (c) cache transparency over parse histories.

use std::sync::OnceLock;

use serde::{Deserialize, Serialize};
use serde_json::{Value, json};

use crate::check::{Check, Tier, Verdict, Violation};
use crate::runner::{self, FrontEnd, RunResult, RunSpec};
use crate::world::{Abort, EventKind, Rng, SimConfig, Strategy};

// ---------------------------------------------------------------------------------------
// program generation: a list of top-level commands with known boundaries

#[derive(Clone, Debug, Serialize, Deserialize, PartialEq)]
pub struct Cmd {
    pub lines: Vec<String>,
    /// probe tags fired when this command runs, in order
    pub tags: Vec<String>,
    /// text written to stdout when this command runs
    pub out: String,
    /// contains a here-document (cut inside it is not judged)
    pub heredoc: bool,
    /// ends with a backslash continuation somewhere (cut inside it is not judged)
    pub continuation: bool,
    /// probes that sit inside a command substitution which starts on an earlier line
    #[serde(default)]
    pub subst_tags: Vec<String>,
}

#[derive(Clone, Debug, Serialize, Deserialize)]
pub struct ParseReq {
    /// 0 program, 1 tokens, 2 word, 3 arithmetic
    pub kind: u8,
    pub text: usize,
    pub optset: u8,
}

#[derive(Clone, Debug, Serialize, Deserialize)]
pub struct Case {
    pub class: String,
    pub cmds: Vec<Cmd>,
    pub chunkings: Vec<(Vec<usize>, usize)>,
    pub history: Vec<ParseReq>,
    /// the program text lacks the final newline
    #[serde(default)]
    pub no_final_newline: bool,
    #[serde(default)]
    pub via_entry: bool,
    pub cfg: SimConfig,
}

struct Gen<'a> {
    rng: &'a mut Rng,
    n: u32,
}

impl Gen<'_> {
    fn id(&mut self) -> u32 {
        self.n += 1;
        self.n
    }

    /// a body of 1-2 inner commands (lines indented), returning (lines, tags, out, heredoc, cont)
    fn body(&mut self, depth: u32) -> Cmd {
        let k = self.rng.range(1, 2);
        let mut c = Cmd { lines: vec![], tags: vec![], out: String::new(), heredoc: false, continuation: false, subst_tags: vec![] };
        for _ in 0..k {
            let inner = self.cmd(depth + 1, true);
            // no indentation: here-document terminators and quoted strings must stay intact
            c.lines.extend(inner.lines);
            c.tags.extend(inner.tags);
            c.out.push_str(&inner.out);
            c.heredoc |= inner.heredoc;
            c.continuation |= inner.continuation;
            c.subst_tags.extend(inner.subst_tags);
        }
        c
    }

    fn probe_line(&mut self) -> (String, String) {
        let i = self.id();
        (format!("probe p{i} $LINENO"), format!("p{i}"))
    }

    fn cmd(&mut self, depth: u32, nested: bool) -> Cmd {
        let mut c = Cmd { lines: vec![], tags: vec![], out: String::new(), heredoc: false, continuation: false, subst_tags: vec![] };
        let top = if depth >= 2 { 6 } else { 50 };
        match self.rng.below(top) {
            0..=2 => {
                let (l, t) = self.probe_line();
                c.lines.push(l);
                c.tags.push(t);
            }
            3 => {
                let i = self.id();
                c.lines.push(format!("echo o{i}"));
                c.out = format!("o{i}\n");
            }
            4 => {
                let (l, t) = self.probe_line();
                c.lines.push(format!("{l} \\"));
                c.lines.push("  more".to_string());
                c.tags.push(t);
                c.continuation = true;
            }
            5 => {
                let (l, t) = self.probe_line();
                c.lines.push("true &&".to_string());
                c.lines.push(format!("  {l}"));
                c.tags.push(t);
            }
            6 => {
                let b = self.body(depth);
                c.lines.push("if true; then".into());
                c.lines.extend(b.lines.clone());
                if self.rng.below(2) == 0 {
                    c.lines.push("else".into());
                    let i = self.id();
                    c.lines.push(format!("  probe never{i} $LINENO"));
                }
                c.lines.push("fi".into());
                c.tags = b.tags;
                c.out = b.out;
                c.heredoc = b.heredoc;
                c.continuation = b.continuation;
                c.subst_tags = b.subst_tags.clone();
            }
            7 => {
                let b = self.body(depth);
                let i = self.id();
                c.lines.push(format!("for v{i} in a b; do"));
                c.lines.extend(b.lines.clone());
                c.lines.push("done".into());
                c.tags = b.tags.iter().chain(b.tags.iter()).cloned().collect();
                c.out = format!("{}{}", b.out, b.out);
                c.heredoc = b.heredoc;
                c.continuation = b.continuation;
                c.subst_tags = b.subst_tags.clone();
            }
            8 => {
                let b = self.body(depth);
                let (open, close) = if self.rng.below(2) == 0 { ("{", "}") } else { ("(", ")") };
                c.lines.push(open.into());
                c.lines.extend(b.lines.clone());
                c.lines.push(close.into());
                c.tags = b.tags;
                c.out = b.out;
                c.heredoc = b.heredoc;
                c.continuation = b.continuation;
                c.subst_tags = b.subst_tags.clone();
            }
            9 => {
                let i = self.id();
                let (l, t) = self.probe_line();
                c.lines.push("case b in".into());
                c.lines.push(format!("  a) probe never{i} $LINENO ;;"));
                c.lines.push(format!("  b) {l} ;;"));
                c.lines.push("esac".into());
                c.tags.push(t);
            }
            10 => {
                let i = self.id();
                let (delim, tab) = match self.rng.below(4) {
                    0 => ("EOF", ""),
                    1 => ("'EOF'", ""),
                    3 => ("''", ""),
                    _ => ("-EOF", "\t"),
                };
                c.lines.push(format!("simcat <<{delim}"));
                c.lines.push(format!("{tab}body {i}"));
                // (an empty delimiter is matched by an empty line)
                c.lines.push(if delim == "''" { String::new() } else { format!("{tab}EOF") });
                c.out = format!("body {i}\n");
                c.heredoc = true;
            }
            11 => {
                let i = self.id();
                c.lines.push(format!("echo \"first {i}"));
                c.lines.push("second\"".to_string());
                c.out = format!("first {i}\nsecond\n");
            }
            12 => {
                let i = self.id();
                c.lines.push(format!("x{i}=$("));
                c.lines.push(format!("  echo val{i}"));
                c.lines.push(")".into());
                c.lines.push(format!("probe p{i} $LINENO $x{i}"));
                c.tags.push(format!("p{i}"));
            }
            13 => {
                c.lines.push("simseq 2 |".into());
                c.lines.push("  simcat".into());
                c.out = "1\n2\n".into();
            }
            14 if !nested => {
                let i = self.id();
                c.lines.push(format!("# comment {i} with 'quote and \"dq"));
            }
            16 => {
                let i = self.id();
                c.lines.push(format!("echo $'ansi {i}"));
                c.lines.push("tail'".to_string());
                c.out = format!("ansi {i}\ntail\n");
            }
            17 => {
                let i = self.id();
                c.lines.push(format!("echo 'single {i}"));
                c.lines.push("tail'".to_string());
                c.out = format!("single {i}\ntail\n");
            }
            18 => {
                let i = self.id();
                c.lines.push(format!("arr{i}=(a"));
                c.lines.push("b c)".to_string());
                c.lines.push(format!("probe p{i} $LINENO ${{#arr{i}[@]}}"));
                c.tags.push(format!("p{i}"));
            }
            19 => {
                c.lines.push("echo $(( 1 +".to_string());
                c.lines.push("2 ))".to_string());
                c.out = "3\n".into();
            }
            20 => {
                let (l, t) = self.probe_line();
                c.lines.push("[[ a == a &&".to_string());
                c.lines.push(format!("b == b ]] && {l}"));
                c.tags.push(t);
            }
            21 => {
                let i = self.id();
                c.lines.push("echo `".to_string());
                c.lines.push(format!("echo bt{i}"));
                c.lines.push("`".to_string());
                c.out = format!("bt{i}\n");
            }
            22 => {
                let b = self.body(depth);
                c.lines.push("while false; do".into());
                c.lines.extend(b.lines.clone());
                c.lines.push("done".into());
                c.heredoc = b.heredoc;
                c.continuation = b.continuation;
                c.subst_tags = b.subst_tags.clone();
            }
            23 => {
                let b = self.body(depth);
                let i = self.id();
                c.lines.push(format!("for ((k{i}=0; k{i}<1; k{i}++)); do"));
                c.lines.extend(b.lines.clone());
                c.lines.push("done".into());
                c.tags = b.tags;
                c.out = b.out;
                c.heredoc = b.heredoc;
                c.continuation = b.continuation;
                c.subst_tags = b.subst_tags.clone();
            }
            24 => {
                let b = self.body(depth);
                let (l, t) = self.probe_line();
                c.lines.push("if false; then".into());
                c.lines.push(":".into());
                c.lines.push("elif true; then".into());
                c.lines.extend(b.lines.clone());
                c.lines.push(l);
                c.lines.push("fi".into());
                c.tags = b.tags;
                c.tags.push(t);
                c.out = b.out;
                c.heredoc = b.heredoc;
                c.continuation = b.continuation;
                c.subst_tags = b.subst_tags.clone();
            }
            25 => {
                let i = self.id();
                c.lines.push("{".into());
                c.lines.push(format!("echo hidden{i}"));
                c.lines.push("} > /dev/null".into());
            }
            26 => {
                let (l, t) = self.probe_line();
                c.lines.push(format!("! {l} # trailing comment"));
                c.tags.push(t);
            }
            27 => {
                let i = self.id();
                c.lines.push(format!("echo \"dq {i} $("));
                c.lines.push("echo inner".to_string());
                c.lines.push(") end\"".to_string());
                c.out = format!("dq {i} inner end\n");
            }
            29 => {
                // $LINENO inside a command substitution that starts on an earlier line
                let i = self.id();
                c.lines.push(format!("y{i}=$("));
                c.lines.push(format!("probe p{i} $LINENO"));
                c.lines.push(")".into());
                c.tags.push(format!("p{i}"));
                c.subst_tags.push(format!("p{i}"));
            }
            28 => {
                let i = self.id();
                c.lines.push(format!("v{i}=${{UNSET_C15:-dflt"));
                c.lines.push("more}".to_string());
                c.lines.push(format!("probe p{i} $LINENO \"$v{i}\""));
                c.tags.push(format!("p{i}"));
            }
            15 if !nested => {
                c.lines.push(String::new());
            }
            30 => {
                // a library sourced without arguments sees the caller's positional parameters:
                // the script's at top level, the function's inside a function
                let i = self.id();
                match self.rng.below(3) {
                    0 => {
                        c.lines.push(format!("LIBN={i}; . ./lib15.sh"));
                        c.tags.push(format!("lib{i}"));
                    }
                    1 => {
                        c.lines.push(format!("LIBN={i}; fs{i}() {{ . ./lib15.sh; }}; fs{i} fa fb fc"));
                        c.tags.push(format!("lib{i}"));
                    }
                    _ => {
                        c.lines.push(format!("LIBN={i}; . ./lib15.sh x y"));
                        c.tags.push(format!("lib{i}"));
                    }
                }
            }
            33 => {
                // two here-documents on one line
                let i = self.id();
                c.lines.push("simcat <<A1; simcat <<B1".to_string());
                c.lines.push(format!("one {i}"));
                c.lines.push("A1".to_string());
                c.lines.push(format!("two {i}"));
                c.lines.push("B1".to_string());
                c.out = format!("one {i}\ntwo {i}\n");
                c.heredoc = true;
            }
            34 => {
                // a here-document inside a command substitution
                let i = self.id();
                c.lines.push(format!("echo \"$(simcat <<EOF"));
                c.lines.push(format!("sub {i}"));
                c.lines.push("EOF".to_string());
                c.lines.push(")\"".to_string());
                c.out = format!("sub {i}\n");
                c.heredoc = true;
            }
            35 => {
                let i = self.id();
                let j = self.id();
                let k = self.id();
                c.lines.push("case b in".into());
                c.lines.push(format!("  \"b\") probe p{i} $LINENO ;&"));
                c.lines.push(format!("  (c|d) probe p{j} $LINENO ;;"));
                c.lines.push(format!("  *) probe never{k} $LINENO ;;"));
                c.lines.push("esac".into());
                c.tags.push(format!("p{i}"));
                c.tags.push(format!("p{j}"));
            }
            36 => {
                let (l, t) = self.probe_line();
                c.lines.push("false ||".to_string());
                c.lines.push(format!("  {l}"));
                c.tags.push(t);
            }
            37 => {
                c.lines.push("simseq 2 |&".into());
                c.lines.push("  simcat".into());
                c.out = "1\n2\n".into();
            }
            38 => {
                let i = self.id();
                let (l, t) = self.probe_line();
                c.lines.push("{".into());
                c.lines.push(format!("# comment {i} inside 'a group"));
                c.lines.push(l);
                c.lines.push("}".into());
                c.tags.push(t);
            }
            39 => {
                let i = self.id();
                c.lines.push(format!("echo \"dq {i} a\\"));
                c.lines.push("b\"".to_string());
                c.out = format!("dq {i} ab\n");
                c.continuation = true;
            }
            40 => {
                // (side finding: brush keeps a backslash-newline inside a here-document body)
                let i = self.id();
                c.lines.push(format!("simcat <<EOF && probe p{i} $LINENO"));
                c.lines.push(format!("ab{i}"));
                c.lines.push("EOF".to_string());
                c.out = format!("ab{i}\n");
                c.tags.push(format!("p{i}"));
                c.heredoc = true;
            }
            41 if !nested => {
                let i = self.id();
                c.lines.push(format!("alias al{i}='probe p{i}'"));
                c.lines.push(format!("al{i} $LINENO"));
                c.tags.push(format!("p{i}"));
            }
            42 => {
                let b = self.body(depth);
                c.lines.push("! {".into());
                c.lines.extend(b.lines.clone());
                c.lines.push("}".into());
                c.tags = b.tags;
                c.out = b.out;
                c.heredoc = b.heredoc;
                c.continuation = b.continuation;
                c.subst_tags = b.subst_tags.clone();
            }
            43 => {
                c.lines.push("echo $(( 1 + \\".to_string());
                c.lines.push("2 ))".to_string());
                c.out = "3\n".into();
                c.continuation = true;
            }
            48 => {
                // $LINENO inside a one-line command substitution (same known finding as the
                // multi-line form: the text is re-parsed without its position)
                let i = self.id();
                c.lines.push(format!("z{i}=$(probe p{i} $LINENO)"));
                c.tags.push(format!("p{i}"));
                c.subst_tags.push(format!("p{i}"));
            }
            49 => {
                let i = self.id();
                c.lines.push(format!("eval 'probe p{i} $LINENO'"));
                c.tags.push(format!("p{i}"));
                c.subst_tags.push(format!("p{i}"));
            }
            47 => {
                // a line ending in three backslashes: an escaped backslash, then a continuation
                let i = self.id();
                c.lines.push(format!("echo three{i}\\\\\\"));
                c.lines.push("-joined".to_string());
                c.out = format!("three{i}\\-joined\n");
                c.continuation = true;
            }
            45 if !nested => {
                // the delivered program changes the positional parameters it was given
                let i = self.id();
                c.lines.push("shift".to_string());
                c.lines.push(format!("probe p{i} $LINENO \"$#\" \"$1\""));
                c.tags.push(format!("p{i}"));
            }
            46 if !nested => {
                let i = self.id();
                c.lines.push(format!("set -- n{i} \"$@\""));
                c.lines.push(format!("probe p{i} $LINENO \"$#\" \"$2\""));
                c.tags.push(format!("p{i}"));
            }
            44 => {
                // a function whose definition carries a redirection, defined and called
                let i = self.id();
                c.lines.push(format!("fr{i}() {{"));
                c.lines.push(format!("echo hidden{i}"));
                c.lines.push(format!("probe p{i} $LINENO"));
                c.lines.push(format!("}} > /dev/null; fr{i}"));
                c.tags.push(format!("p{i}"));
            }
            _ => {
                let i = self.id();
                c.lines.push(format!("simexit {}", self.rng.range(0, 3)));
                c.lines.push(format!("probe p{i} $LINENO"));
                c.tags.push(format!("p{i}"));
            }
        }
        c
    }

    /// top-level: a function definition followed (not necessarily directly) by its call
    fn func(&mut self) -> (Cmd, Cmd) {
        let i = self.id();
        let b = self.body(1);
        let mut def = Cmd { lines: vec![format!("fn{i}() {{")], tags: vec![], out: String::new(), heredoc: b.heredoc, continuation: b.continuation, subst_tags: b.subst_tags.clone() };
        def.lines.extend(b.lines.clone());
        def.lines.push("}".into());
        let call = Cmd { lines: vec![format!("fn{i}")], tags: b.tags, out: b.out, heredoc: false, continuation: false, subst_tags: vec![] };
        (def, call)
    }
}

/// Split multi-command top-level entries so that every `Cmd` is exactly one complete command.
fn normalise(cmds: Vec<Cmd>) -> Vec<Cmd> {
    let mut out = vec![];
    for c in cmds {
        // the two-line forms `simexit N` / `probe` and `x=$(...)` / `probe` are two commands
        let is_status_pair = c.lines.len() == 2 && c.lines[0].starts_with("simexit ");
        let is_subst_pair = c.lines.len() == 4 && c.lines[0].starts_with('x') && c.lines[0].ends_with("=$(");
        let is_two_plus_probe = c.lines.len() == 3 && (c.lines[0].starts_with("arr") || (c.lines[0].starts_with('v') && c.lines[0].contains("=${UNSET_C15"))) && c.lines[2].starts_with("probe ");
        let is_alias_pair = c.lines.len() == 2 && (c.lines[0].starts_with("alias ") || c.lines[0] == "shift" || c.lines[0].starts_with("set -- "));
        if is_status_pair || is_alias_pair {
            out.push(Cmd { lines: vec![c.lines[0].clone()], tags: vec![], out: String::new(), heredoc: false, continuation: false, subst_tags: vec![] });
            out.push(Cmd { lines: vec![c.lines[1].clone()], tags: c.tags.clone(), out: String::new(), heredoc: false, continuation: false, subst_tags: vec![] });
        } else if is_two_plus_probe {
            out.push(Cmd { lines: c.lines[..2].to_vec(), tags: vec![], out: String::new(), heredoc: false, continuation: false, subst_tags: vec![] });
            out.push(Cmd { lines: vec![c.lines[2].clone()], tags: c.tags.clone(), out: String::new(), heredoc: false, continuation: false, subst_tags: vec![] });
        } else if is_subst_pair {
            out.push(Cmd { lines: c.lines[..3].to_vec(), tags: vec![], out: String::new(), heredoc: false, continuation: false, subst_tags: vec![] });
            out.push(Cmd { lines: vec![c.lines[3].clone()], tags: c.tags.clone(), out: String::new(), heredoc: false, continuation: false, subst_tags: vec![] });
        } else {
            out.push(c);
        }
    }
    out
}

pub fn script_of(cmds: &[Cmd]) -> String {
    let mut s = String::new();
    for c in cmds {
        for l in &c.lines {
            s.push_str(l);
            s.push('\n');
        }
    }
    s
}

// ---------------------------------------------------------------------------------------
// parse corpus and reference (cold-process) results

pub const PROGRAMS: &[&str] = &[
    "echo @(a|b)",
    "[[ a == b ]] && echo y",
    "function f { echo x; }",
    "echo !(x)",
    "((x=1))",
    "coproc cat",
    "echo $(( 1 + 2 ))",
    "for ((i=0;i<1;i++)); do :; done",
    "echo ~/x",
    "if true; then echo a; fi",
    "echo \"a b\" 'c'",
    "a=1 b=2 cmd",
    "cat <<EOF\nx\nEOF",
    "echo +(a)",
    "case x in @(x|y)) echo m;; esac",
    "select x in a; do :; done",
    "echo ${x:-d}",
    "time -p ls",
    "echo a |& cat",
    "x=(1 2 3)",
    "echo <(true)",
    "! true",
];
pub const WORDS: &[&str] = &["@(a|b)", "~user/x", "a:~b", "${x//+(a)/b}", "$((1+2))", "\"quoted $x\"", "!(x|y)*", "a{b,c}d", "\\~x", "x=~/y", "?(a)b", "$'a\\nb'", "`cmd`", "${#x}", "*(a|b)c"];
pub const EVALS: &[&str] = &[
    "[[ ABC =~ ^abc$ ]]",
    "[[ abc =~ ^ABC$ ]]",
    "case ABC in abc) true ;; *) false ;; esac",
    "[[ ABC == abc ]]",
    "[[ aXb == a?b ]]",
    "[[ ABC =~ ^a.c$ ]]",
    "[[ xyz =~ ^xyz$ ]]",
    "case abc in A*) true ;; *) false ;; esac",
    "x=ABC; [[ ${x/abc/z} == z ]]",
    // the same text as an arithmetic expression (no tilde expansion) and as a word (with it)
    "[[ $((~0)) == -1 ]]",
    "set -- ~0; [[ \"$1\" != '~0' ]]",
    "[[ $((~+1)) == -2 ]]",
    "set -- ~+; [[ \"$1\" != '~+' ]]",
    "v=~0; [[ \"$v\" != '~0' ]]",
];
pub const ARITH: &[&str] = &["1+2", "x=3", "a?b:c", "x++ + ++y", "(1+2)*3", "1 +", "2**3", "a[1]", "x<<=2", "!a && b"];

fn optset(i: u8) -> (bool, bool, bool) {
    (i & 1 != 0, i & 2 != 0, i & 4 != 0)
}

fn parser_options(i: u8) -> brush_parser::ParserOptions {
    let (eg, px, sh) = optset(i);
    brush_parser::ParserOptions { enable_extended_globbing: eg, posix_mode: px, sh_mode: sh, ..Default::default() }
}

fn all_items() -> Vec<(u8, usize)> {
    let mut v = vec![];
    for i in 0..PROGRAMS.len() {
        v.push((0u8, i));
        v.push((1u8, i));
    }
    for i in 0..WORDS.len() {
        v.push((2u8, i));
    }
    for i in 0..ARITH.len() {
        v.push((3u8, i));
    }
    for i in 0..EVALS.len() {
        v.push((4u8, i));
    }
    v
}

fn text_of(kind: u8, idx: usize) -> &'static str {
    match kind {
        0 | 1 => PROGRAMS[idx % PROGRAMS.len()],
        2 => WORDS[idx % WORDS.len()],
        3 => ARITH[idx % ARITH.len()],
        _ => EVALS[idx % EVALS.len()],
    }
}

thread_local! {
    static PARSE_SHELL: std::cell::RefCell<Option<runner::SimShell>> = const { std::cell::RefCell::new(None) };
}

fn with_shell<R>(f: impl FnOnce(&mut runner::SimShell) -> R) -> R {
    PARSE_SHELL.with(|cell| {
        let mut b = cell.borrow_mut();
        if b.is_none() {
            use brush_builtins::ShellBuilderExt as _;
            let rt = tokio::runtime::Builder::new_current_thread().enable_all().build().expect("rt");
            let mut fds = std::collections::HashMap::new();
            for fd in 0..3 {
                if let Ok(n) = brush_core::openfiles::null() {
                    fds.insert(fd, n);
                }
            }
            let sh = rt
                .block_on(async {
                    brush_core::Shell::builder()
                        .default_builtins(brush_builtins::BuiltinSet::BashMode)
                        .fds(fds)
                        .do_not_inherit_env(true)
                        .profile(brush_core::ProfileLoadBehavior::Skip)
                        .rc(brush_core::RcLoadBehavior::Skip)
                        .build()
                        .await
                })
                .expect("shell");
            *b = Some(sh);
        }
        f(b.as_mut().unwrap())
    })
}

/// Ask the possibly-cached public entry point.
fn query(kind: u8, idx: usize, os: u8) -> String {
    let text = text_of(kind, idx);
    let po = parser_options(os);
    match kind {
        0 => with_shell(|sh| {
            let (eg, px, shm) = optset(os);
            sh.options_mut().extended_globbing = eg;
            sh.options_mut().posix_mode = px;
            sh.options_mut().sh_mode = shm;
            format!("{:?}", sh.parse_string(text))
        }),
        1 => format!("{:?}", brush_parser::tokenize_str_with_options(text, &po.tokenizer_options())),
        2 => format!("{:?}", brush_parser::word::parse(text, &po)),
        3 => format!("{:?}", brush_parser::arithmetic::parse(text)),
        _ => with_shell(|sh| {
            // a pattern / regex evaluation in the long-lived shell: bit 0 of the option set is
            // nocasematch here (compiled patterns are memoised by brush-core regex.rs)
            let (nocase, _, _) = optset(os);
            sh.options_mut().extended_globbing = true;
            sh.options_mut().posix_mode = false;
            sh.options_mut().sh_mode = false;
            let script = format!("shopt -{} nocasematch; {text}", if nocase { "s" } else { "u" });
            let params = sh.default_exec_params();
            let si = brush_core::SourceInfo::from("c15");
            let rt = tokio::runtime::Builder::new_current_thread().enable_all().build().expect("rt");
            let r = rt.block_on(async { sh.run_string(script, &si, &params).await });
            format!("{:?}", r.map(|x| u8::from(x.exit_code)).map_err(|e| e.to_string()))
        }),
    }
}

/// Ask the uncached entry point where one exists.
fn query_uncached(kind: u8, idx: usize, os: u8) -> Option<String> {
    let text = text_of(kind, idx);
    let po = parser_options(os);
    match kind {
        0 => Some(with_shell(|sh| {
            let (eg, px, shm) = optset(os);
            sh.options_mut().extended_globbing = eg;
            sh.options_mut().posix_mode = px;
            sh.options_mut().sh_mode = shm;
            format!("{:?}", sh.parse(text.as_bytes()))
        })),
        1 => Some(format!("{:?}", brush_parser::uncached_tokenize_str(text, &po.tokenizer_options()))),
        _ => None,
    }
}

/// Entry point of the cold reference process: every item queried exactly once under one option
/// set, so no result can come from a cache entry made under other options.
pub fn parse_ref_main(os: u8) {
    let res: Vec<String> = all_items().into_iter().map(|(k, i)| query(k, i, os)).collect();
    println!("{}", serde_json::to_string(&res).unwrap_or_default());
}

static REFERENCE: OnceLock<Result<Vec<Vec<String>>, String>> = OnceLock::new();

fn reference() -> &'static Result<Vec<Vec<String>>, String> {
    REFERENCE.get_or_init(|| {
        let exe = std::env::current_exe().map_err(|e| e.to_string())?;
        let mut all = vec![];
        for os in 0..8u8 {
            let out = std::process::Command::new(&exe).args(["parse-ref", &os.to_string()]).output().map_err(|e| e.to_string())?;
            let text = String::from_utf8_lossy(&out.stdout);
            let line = text.lines().rev().find(|l| l.starts_with('[')).ok_or("no reference output")?;
            let v: Vec<String> = serde_json::from_str(line).map_err(|e| e.to_string())?;
            all.push(v);
        }
        Ok(all)
    })
}

// ---------------------------------------------------------------------------------------

pub struct C15;

fn fnv(s: &str) -> u64 {
    let mut h = 0xcbf2_9ce4_8422_2325u64;
    for b in s.bytes() {
        h ^= b as u64;
        h = h.wrapping_mul(0x0000_0100_0000_01B3);
    }
    h
}

fn viol(class: &str, detail: String) -> Violation {
    Violation { class: class.to_string(), detail, known_shape: None }
}

impl C15 {
    fn gen_case(&self, seed: u64, tier: Tier) -> Case {
        let mut rng = Rng::new(seed);
        let class = if rng.below(4) == 0 { "parse-history" } else { "delivery" }.to_string();
        let mut cfg = SimConfig::default();
        cfg.seed = rng.next();
        cfg.strategy = Strategy::RunLong;
        cfg.budget = 30_000;
        if class == "parse-history" {
            let n = rng.range(20, if tier == Tier::Thorough { 200 } else { 120 });
            // a small working set so that the same text recurs under different options
            let items = all_items();
            let ws: Vec<(u8, usize)> = (0..rng.range(2, 8)).map(|_| *rng.pick(&items)).collect();
            let history = (0..n)
                .map(|_| {
                    let (kind, text) = *rng.pick(&ws);
                    ParseReq { kind, text, optset: rng.below(8) as u8 }
                })
                .collect();
            return Case { class, cmds: vec![], chunkings: vec![], history, no_final_newline: false, via_entry: false, cfg };
        }
        let maxc = if tier == Tier::Thorough { 12 } else { 8 };
        let n = rng.range(2, maxc);
        let mut g = Gen { rng: &mut rng, n: 0 };
        let mut cmds = vec![];
        let mut pending_call: Option<Cmd> = None;
        for _ in 0..n {
            if g.rng.below(6) == 0 && pending_call.is_none() {
                let (d, c) = g.func();
                cmds.push(d);
                pending_call = Some(c);
            } else {
                cmds.push(g.cmd(0, false));
            }
            if pending_call.is_some() && g.rng.below(2) == 0 {
                cmds.push(pending_call.take().unwrap());
            }
        }
        if let Some(c) = pending_call {
            cmds.push(c);
        }
        let mut cmds = normalise(cmds);
        // positional parameters must arrive the same way through every delivery mode
        let at = rng.below(cmds.len() as u64 + 1) as usize;
        cmds.insert(at, Cmd { lines: vec!["probe args \"$#\" \"$1\" \"$2\"".to_string()], tags: vec!["args".into()], out: String::new(), heredoc: false, continuation: false, subst_tags: vec![] });
        let script = script_of(&cmds);
        // chunkings: (chunk sizes, BufReader capacity)
        let line_chunks: Vec<usize> = script.split_inclusive('\n').map(|l| l.len()).collect();
        let mut chunkings = vec![(vec![], 8192usize), (line_chunks.clone(), 8192), (line_chunks, 1)];
        for _ in 0..rng.range(2, 4) {
            let k = rng.range(1, 4);
            let sizes: Vec<usize> = (0..k).map(|_| *rng.pick(&[1usize, 2, 3, 5, 7, 16, 40, 200])).collect();
            chunkings.push((sizes, *rng.pick(&[1usize, 2, 8, 64, 8192])));
        }
        let via_entry = rng.below(3) == 0;
        // only when the last command is a one-liner without a here-document
        let no_final_newline = rng.below(4) == 0 && cmds.last().is_some_and(|c| c.lines.len() == 1 && !c.lines[0].is_empty() && !c.lines[0].starts_with('#'));
        Case { class, cmds, chunkings, history: vec![], no_final_newline, via_entry, cfg }
    }
}

#[derive(PartialEq, Debug, Clone)]
struct Trace {
    probes: Vec<(String, u8, Vec<String>)>,
    out: String,
    status: Option<u8>,
}

fn trace_of(r: &RunResult) -> Trace {
    let probes = r
        .events
        .iter()
        .filter_map(|e| match &e.kind {
            EventKind::Probe { tag, status, extra, .. } => Some((tag.clone(), *status, extra.clone())),
            _ => None,
        })
        .collect();
    Trace { probes, out: String::from_utf8_lossy(&r.out).to_string(), status: r.status }
}

fn abort_violation(r: &RunResult, what: &str, script: &str) -> Option<Violation> {
    match &r.abort {
        None | Some(Abort::Deadlock { main_done: true, .. }) => None,
        Some(a) => Some(viol("C15/abort", format!("{what}: {a:?}; script={script:?}"))),
    }
}

fn judge_delivery(case: &Case, v: &mut Verdict) {
    let mut script = script_of(&case.cmds);
    if case.no_final_newline {
        script.pop();
    }
    v.case_key = fnv(&script);
    v.nontrivial = case.cmds.iter().any(|c| c.lines.len() > 1);
    let expected_tags: Vec<String> = case.cmds.iter().flat_map(|c| c.tags.iter().cloned()).collect();
    let expected_out: String = case.cmds.iter().map(|c| c.out.clone()).collect();

    let run = |fe: FrontEnd, cfg: &SimConfig, text: &str| -> RunResult {
        let mut spec = RunSpec::new(text.to_string(), fe, cfg.clone());
        spec.via_entry = case.via_entry;
        spec.args = vec!["a1".to_string(), "b 2".to_string()];
        spec.files = vec![("lib15.sh".to_string(), "probe \"lib$LIBN\" \"$#\" \"$1\"\n".to_string())];
        spec.needs_dir = true;
        runner::run(&spec)
    };
    let mut account = |v: &mut Verdict, r: &RunResult| {
        v.hashes.push(r.loghash);
        v.shapes.push(r.shapehash);
        v.runs += 1;
        v.decisions += r.decisions;
        v.stats.merge(&r.stats);
        if r.harness_error.is_some() {
            v.harness_error = r.harness_error.clone();
        }
    };

    // (a) delivery modes
    let modes = [FrontEnd::ScriptFile, FrontEnd::DashC, FrontEnd::Source, FrontEnd::Eval, FrontEnd::Stdin];
    let mut traces: Vec<(FrontEnd, Trace)> = vec![];
    for m in &modes {
        let r = run(m.clone(), &case.cfg, &script);
        account(v, &r);
        if v.harness_error.is_some() {
            return;
        }
        if let Some(x) = abort_violation(&r, &format!("{m:?}"), &script) {
            v.violation = Some(x);
            return;
        }
        traces.push((m.clone(), trace_of(&r)));
    }
    // the generator knows what must happen
    let base = &traces[0].1;
    let got_tags: Vec<String> = base.probes.iter().map(|p| p.0.clone()).collect();
    if got_tags != expected_tags || base.out != expected_out {
        v.violation = Some(viol(
            "C15/model/script-file",
            format!("as a script file: probes {got_tags:?} (model {expected_tags:?}), stdout {:?} (model {expected_out:?}); script={script:?}", base.out),
        ));
        return;
    }
    // probes inside a multi-line command substitution carry a $LINENO that is a known finding:
    // they are compared separately so that the rest of the case is still judged
    let subst: std::collections::HashSet<String> = case.cmds.iter().flat_map(|c| c.subst_tags.iter().cloned()).collect();
    let masked = |t: &Trace| -> Trace {
        let mut m = t.clone();
        for p in &mut m.probes {
            if subst.contains(&p.0) {
                p.2 = vec!["<lineno inside $( )>".to_string()];
            }
        }
        m
    };
    let mut pending_known: Option<Violation> = None;
    let base_m = masked(base);
    for (m, t) in traces.iter().skip(1) {
        let t_m = masked(t);
        if t_m != base_m {
            let what = if t.probes.iter().map(|p| &p.0).ne(base.probes.iter().map(|p| &p.0)) {
                "probes"
            } else if t.probes.iter().map(|p| p.1).ne(base.probes.iter().map(|p| p.1)) {
                "statuses"
            } else if t_m.probes.iter().map(|p| &p.2).ne(base_m.probes.iter().map(|p| &p.2)) {
                "lineno"
            } else if t.out != base.out {
                "stdout"
            } else {
                "final-status"
            };
            v.violation = Some(viol(
                &format!("C15/delivery/{what}"),
                format!("{m:?} differs from ScriptFile in {what}: {:?} vs {:?}; script={script:?}", short_trace(t), short_trace(base)),
            ));
            return;
        }
        if t != base && pending_known.is_none() {
            let mut x = viol(
                "C15/delivery/lineno",
                format!("{m:?} differs from ScriptFile in $LINENO inside a multi-line command substitution: {:?} vs {:?}; script={script:?}", short_trace(t), short_trace(base)),
            );
            x.known_shape = Some("lineno-inside-multiline-command-substitution".into());
            pending_known = Some(x);
        }
    }

    // (b) stdin is a stream: chunking never changes the result, and commands run as soon as,
    // and only when, complete
    let mut ends: Vec<usize> = vec![];
    let mut off = 0usize;
    for c in &case.cmds {
        for l in &c.lines {
            off += l.len() + 1;
        }
        ends.push(off);
    }
    // `ends_asap[k]`: the delivered length from which command k must have run. A last command
    // without its newline is complete only once end of input has been seen.
    let mut ends_asap = ends.clone();
    if case.no_final_newline {
        if let Some(l) = ends.last_mut() {
            *l -= 1;
        }
        if let Some(l) = ends_asap.last_mut() {
            *l = usize::MAX;
        }
    }
    let mut tag_cmd: std::collections::HashMap<String, usize> = std::collections::HashMap::new();
    for (k, c) in case.cmds.iter().enumerate() {
        for t in &c.tags {
            tag_cmd.insert(t.clone(), k);
        }
    }
    for (chunks, buf) in &case.chunkings {
        let mut cfg = case.cfg.clone();
        cfg.stdin_chunks = chunks.clone();
        cfg.stdin_buf = *buf;
        let r = run(FrontEnd::Stdin, &cfg, &script);
        account(v, &r);
        if v.harness_error.is_some() {
            return;
        }
        if let Some(x) = abort_violation(&r, &format!("stdin chunks {chunks:?} buf {buf}"), &script) {
            v.violation = Some(x);
            return;
        }
        let t = trace_of(&r);
        let stdin_whole = &traces.last().unwrap().1;
        if &t != stdin_whole {
            v.violation = Some(viol(
                "C15/stdin/chunking-changes-result",
                format!("stdin delivered in chunks {chunks:?} (reader buffer {buf}) gives {:?}, whole gives {:?}; script={script:?}", short_trace(&t), short_trace(stdin_whole)),
            ));
            return;
        }
        // fired[k] = sequence number at which command k's last expected probe fired
        let mut fired_count = vec![0usize; case.cmds.len()];
        for e in &r.events {
            match &e.kind {
                EventKind::Probe { tag, stdin_delivered, .. } => {
                    if let Some(k) = tag_cmd.get(tag) {
                        fired_count[*k] += 1;
                        // only when: the whole command had been handed over
                        if *stdin_delivered < ends[*k] {
                            v.violation = Some(viol(
                                "C15/stdin/ran-before-complete",
                                format!("probe {tag} of command {k} (ends at byte {}) fired with only {stdin_delivered} bytes delivered; chunks {chunks:?} buf {buf}; script={script:?}", ends[*k]),
                            ));
                            return;
                        }
                    }
                }
                EventKind::StdinRead { pos, .. } => {
                    // as soon as: everything complete within the delivered prefix has run
                    for (k, c) in case.cmds.iter().enumerate() {
                        if ends_asap[k] <= *pos && fired_count[k] < c.tags.len() {
                            v.violation = Some(viol(
                                "C15/stdin/not-run-when-complete",
                                format!("the shell asked for more input at byte {pos} although command {k} (complete at byte {}) had fired only {}/{} probes; chunks {chunks:?} buf {buf}; script={script:?}", ends[k], fired_count[k], c.tags.len()),
                            ));
                            return;
                        }
                    }
                    v.stats.probe("stdin_read_checked");
                }
                _ => {}
            }
        }
    }

    // (b') end of input at every line boundary
    let all_lines: Vec<(usize, &String)> = case.cmds.iter().enumerate().flat_map(|(k, c)| c.lines.iter().map(move |l| (k, l))).collect();
    for cut in 1..all_lines.len() {
        let prefix: String = all_lines[..cut].iter().map(|(_, l)| format!("{l}\n")).collect();
        let cut_cmd = all_lines[cut].0;
        let inside = all_lines[cut - 1].0 == cut_cmd; // the cut falls inside command `cut_cmd`
        let r = run(FrontEnd::Stdin, &case.cfg, &prefix);
        account(v, &r);
        if v.harness_error.is_some() {
            return;
        }
        if let Some(x) = abort_violation(&r, &format!("stdin ends after line {cut}"), &prefix) {
            v.violation = Some(x);
            return;
        }
        let got: Vec<String> = trace_of(&r).probes.iter().map(|p| p.0.clone()).collect();
        let complete: Vec<String> = case.cmds[..cut_cmd].iter().flat_map(|c| c.tags.iter().cloned()).collect();
        let partial = &case.cmds[cut_cmd];
        let not_judged = inside && (partial.heredoc || partial.continuation);
        let ok = if !inside {
            got == complete
        } else if not_judged {
            got.len() >= complete.len() && got[..complete.len()] == complete[..]
        } else {
            // the unfinished command must not have run at all
            got == complete
        };
        if !ok {
            let class = if got.len() > complete.len() { "C15/stdin/incomplete-command-ran" } else { "C15/stdin/complete-command-lost" };
            v.violation = Some(viol(class, format!("stdin ends after line {cut} (inside command: {inside}): probes {got:?}, want {complete:?}; stderr={:?}; text={prefix:?}", String::from_utf8_lossy(&r.err))));
            return;
        }
        if inside && !not_judged {
            v.stats.probe("eof_inside_multiline_command");
        }
    }
    if pending_known.is_some() {
        v.violation = pending_known;
    }
}

fn short_trace(t: &Trace) -> String {
    let s = format!("{:?}", t);
    if s.len() > 500 { format!("{}…", s.chars().take(500).collect::<String>()) } else { s }
}

fn judge_history(case: &Case, v: &mut Verdict) {
    let reference = match reference() {
        Ok(r) => r,
        Err(e) => {
            v.harness_error = Some(format!("reference processes: {e}"));
            return;
        }
    };
    let items = all_items();
    let index_of = |kind: u8, text: usize| items.iter().position(|(k, i)| *k == kind && *i == text);
    v.nontrivial = true;
    v.case_key = fnv(&format!("{:?}", case.history.iter().map(|r| (r.kind, r.text, r.optset)).collect::<Vec<_>>()));
    // the history runs in a fresh process so that the verdict is a function of the history
    // alone (and minimisation and replay see the same thing)
    let results = match run_history_cold(&case.history) {
        Ok(r) => r,
        Err(e) => {
            v.harness_error = Some(format!("history process: {e}"));
            return;
        }
    };
    let mut seen: std::collections::HashMap<(u8, usize), u8> = std::collections::HashMap::new();
    for (n, req) in case.history.iter().enumerate() {
        let Some((got, uncached)) = results.get(n) else {
            v.harness_error = Some("history process returned too few results".into());
            return;
        };
        v.runs += 1;
        let Some(ix) = index_of(req.kind, req.text) else { continue };
        let want = &reference[req.optset as usize][ix];
        if let Some(prev) = seen.insert((req.kind, req.text), req.optset) {
            if prev != req.optset && reference[prev as usize][ix] != *want {
                v.stats.probe("same_text_under_options_that_matter");
            }
        }
        if got != want {
            v.violation = Some(viol(
                "C15/cache/history-dependent-parse",
                format!("request #{n} kind {} text {:?} options (extglob,posix,sh)={:?}: result differs from a cold process: got {} want {}", req.kind, text_of(req.kind, req.text), optset(req.optset), trunc(got), trunc(want)),
            ));
            return;
        }
        if let Some(u) = uncached {
            if u != got {
                v.violation = Some(viol(
                    "C15/cache/differs-from-uncached",
                    format!("request #{n} kind {} text {:?} options {:?}: cached {} uncached {}", req.kind, text_of(req.kind, req.text), optset(req.optset), trunc(got), trunc(u)),
                ));
                return;
            }
        }
    }
}

fn run_history_cold(history: &[ParseReq]) -> Result<Vec<(String, Option<String>)>, String> {
    use std::io::Write;
    let exe = std::env::current_exe().map_err(|e| e.to_string())?;
    let mut child = std::process::Command::new(exe)
        .arg("exec-history")
        .stdin(std::process::Stdio::piped())
        .stdout(std::process::Stdio::piped())
        .spawn()
        .map_err(|e| e.to_string())?;
    let input = serde_json::to_string(history).map_err(|e| e.to_string())?;
    child.stdin.take().ok_or("no stdin")?.write_all(input.as_bytes()).map_err(|e| e.to_string())?;
    let out = child.wait_with_output().map_err(|e| e.to_string())?;
    let text = String::from_utf8_lossy(&out.stdout);
    let line = text.lines().rev().find(|l| l.starts_with('[')).ok_or("no output")?;
    serde_json::from_str(line).map_err(|e| e.to_string())
}

/// Entry point of the cold history process.
pub fn exec_history_main() {
    let Some(v) = crate::check::read_stdin_json() else { std::process::exit(2) };
    let Ok(history) = serde_json::from_value::<Vec<ParseReq>>(v) else { std::process::exit(2) };
    let res: Vec<(String, Option<String>)> = history.iter().map(|r| (query(r.kind, r.text, r.optset), query_uncached(r.kind, r.text, r.optset))).collect();
    println!("{}", serde_json::to_string(&res).unwrap_or_default());
}

fn trunc(s: &str) -> String {
    if s.len() > 300 { format!("{}…", s.chars().take(300).collect::<String>()) } else { s.to_string() }
}

pub fn judge(case: &Case) -> Verdict {
    let mut v = Verdict::default();
    v.class_name = case.class.clone();
    if case.class == "parse-history" {
        judge_history(case, &mut v);
    } else {
        judge_delivery(case, &mut v);
    }
    v
}

impl Check for C15 {
    fn id(&self) -> &'static str {
        "C15"
    }
    fn level(&self) -> &'static str {
        "exploration"
    }
    fn engine(&self) -> &'static str {
        "delivery"
    }
    fn generate(&self, seed: u64, tier: Tier) -> Value {
        serde_json::to_value(self.gen_case(seed, tier)).unwrap_or(Value::Null)
    }
    fn execute(&self, case: &Value) -> Verdict {
        match serde_json::from_value::<Case>(case.clone()) {
            Ok(c) => judge(&c),
            Err(e) => Verdict { harness_error: Some(format!("bad case: {e}")), ..Default::default() },
        }
    }
    fn shrink(&self, case: &Value) -> Vec<Value> {
        let Ok(c) = serde_json::from_value::<Case>(case.clone()) else { return vec![] };
        let mut out: Vec<Case> = vec![];
        if c.class == "parse-history" {
            // drop halves, then single requests
            let n = c.history.len();
            if n > 1 {
                let mut d = c.clone();
                d.history = c.history[n / 2..].to_vec();
                out.push(d);
                let mut d = c.clone();
                d.history = c.history[..n / 2].to_vec();
                out.push(d);
            }
            for i in 0..n.min(60) {
                let mut d = c.clone();
                d.history.remove(i);
                out.push(d);
            }
        } else {
            for i in 0..c.cmds.len() {
                if c.cmds.len() > 1 {
                    let mut d = c.clone();
                    let removed = d.cmds.remove(i);
                    // a function definition goes together with its call (and vice versa)
                    if let Some(name) = removed.lines.first().and_then(|l| l.strip_suffix("() {")) {
                        d.cmds.retain(|x| !(x.lines.len() == 1 && x.lines[0] == name));
                    } else if removed.lines.len() == 1 && removed.lines[0].starts_with("fn") {
                        let def = format!("{}() {{", removed.lines[0]);
                        d.cmds.retain(|x| x.lines.first() != Some(&def));
                    }
                    if !d.cmds.is_empty() {
                        out.push(d);
                    }
                }
            }
            for i in 0..c.chunkings.len() {
                if c.chunkings.len() > 1 {
                    let mut d = c.clone();
                    d.chunkings = vec![c.chunkings[i].clone()];
                    out.push(d);
                }
            }
        }
        out.into_iter().filter_map(|c| serde_json::to_value(c).ok()).collect()
    }
    fn rule(&self) -> String {
        format!(
            "delivery class: seeded programs of 2-12 top-level commands (probes carrying $LINENO, status leaves, if/else, for, brace group, subshell, case, function definition and later call, && and | continued on the next line, backslash continuation, here-documents (plain, quoted, <<-), multi-line quoted strings, multi-line command substitution, comments, blank lines; nested to depth 3) run as a script file, -c string, `source`, `eval \"$PROG\"` and on standard input, all five traces (probe tags, $?, $LINENO, stdout, final status) compared with each other and with what the generator knows; then on standard input under 5-7 chunkings (whole, per line with an 8 KiB and a 1-byte reader buffer, seeded sizes) checking at every read that all complete commands have run and at every probe that its whole command had been delivered; then with input ending at every line boundary (an unfinished multi-line command must not run); parse-history class: seeded histories of 20-200 requests over a working set of 2-8 of {} texts x 8 option sets (extglob, posix, sh) against the four caches, each result compared with a cold process that never saw the text under other options and with the uncached entry point; non-trivial = a multi-line command is present / every history; distinct = distinct script or history",
            PROGRAMS.len() * 2 + WORDS.len() + ARITH.len()
        )
    }
    fn components(&self) -> Value {
        json!({
            "real": ["brush-interactive completeness.rs, minimal/input_backend.rs read_program_from (through verif_read_program_from), interactive_shell.rs", "brush-core shell/execution.rs (run_script, run_dash_c_command, source_script, run_string), shell/parsing.rs parse_string_impl cache, callstack.rs line offsets", "brush-parser tokenizer.rs TOKENIZE_CACHE, word.rs cacheable_parse, arithmetic.rs cache", "brush-builtins eval, ."],
            "stub": ["process stdin -> simulated chunked stream behind a shared BufReader", "brush-shell entry.rs is exercised in a seeded fraction of the cases (verif_run: argument parsing, instantiate_shell, run_in_shell); in the others the front-end functions are called directly", "brush-core regex.rs cache is not exercised"]
        })
    }
    fn assumptions(&self) -> Vec<String> {
        vec![
            "command boundaries come from the generator, not from brush's own completeness function".into(),
            "input ending inside a here-document or right after a backslash continuation is not judged (bash itself runs such text)".into(),
            "the reference for cache transparency is a cold process per option set in which every text is queried once".into(),
        ]
    }
}
