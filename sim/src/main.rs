#![allow(dead_code)]
mod builtins;
mod runner;
mod streams;
mod world;

use runner::{FrontEnd, RunSpec};
use world::{SimConfig, Strategy};

fn arg_val(args: &[String], name: &str) -> Option<String> {
    args.iter().position(|a| a == name).and_then(|i| args.get(i + 1).cloned())
}

fn parse_strategy(s: &str) -> Strategy {
    match s {
        "uniform" => Strategy::Uniform,
        "runlong" => Strategy::RunLong,
        "lowest" => Strategy::LowestId,
        "highest" => Strategy::HighestId,
        x if x.starts_with("sticky") => Strategy::Sticky(x[6..].parse().unwrap_or(80)),
        x if x.starts_with("starve") => Strategy::Starve(x[6..].parse().unwrap_or(0)),
        x if x.starts_with("pct") => Strategy::Pct { d: x[3..].parse().unwrap_or(2), horizon: 200 },
        _ => Strategy::RunLong,
    }
}

fn parse_fe(s: &str) -> FrontEnd {
    match s {
        "file" => FrontEnd::ScriptFile,
        "stdin" => FrontEnd::Stdin,
        "source" => FrontEnd::Source,
        "eval" => FrontEnd::Eval,
        _ => FrontEnd::DashC,
    }
}

fn main() {
    let args: Vec<String> = std::env::args().collect();
    runner::install_hooks();
    match args.get(1).map(String::as_str) {
        Some("run") => {
            let script = arg_val(&args, "--script").unwrap_or_default();
            let mut cfg = SimConfig::default();
            cfg.seed = arg_val(&args, "--seed").and_then(|s| s.parse().ok()).unwrap_or(1);
            cfg.capacity = arg_val(&args, "--cap").and_then(|s| s.parse().ok()).unwrap_or(65536);
            cfg.strategy = parse_strategy(&arg_val(&args, "--strategy").unwrap_or_default());
            cfg.budget = arg_val(&args, "--budget").and_then(|s| s.parse().ok()).unwrap_or(20000);
            if let Some(c) = arg_val(&args, "--chunks") {
                cfg.stdin_chunks = c.split(',').filter_map(|x| x.parse().ok()).collect();
            }
            let fe = parse_fe(&arg_val(&args, "--fe").unwrap_or_default());
            let reps: u64 = arg_val(&args, "--reps").and_then(|s| s.parse().ok()).unwrap_or(1);
            let mut spec = RunSpec::new(script, fe, cfg);
            spec.needs_dir = args.iter().any(|a| a == "--dir");
            let t = std::time::Instant::now();
            let mut last = None;
            let mut hashes = std::collections::HashSet::new();
            for i in 0..reps {
                let mut s = spec.clone();
                s.cfg.seed = spec.cfg.seed + i;
                let r = runner::run(&s);
                hashes.insert(r.loghash);
                last = Some(r);
            }
            let r = last.unwrap();
            eprintln!("reps={} wall={:?} distinct_hashes={}", reps, t.elapsed(), hashes.len());
            println!("status={:?} result={:?} fe_err={:?} abort={:?}", r.status, r.result_code, r.front_end_error, r.abort);
            println!("decisions={} parts={} pipes={} clock={} hash={:x} harness_error={:?}", r.decisions, r.participants, r.pipes, r.clock, r.loghash, r.harness_error);
            println!("--- stdout\n{}--- stderr\n{}", String::from_utf8_lossy(&r.out), String::from_utf8_lossy(&r.err));
            if args.iter().any(|a| a == "--events") {
                for e in &r.events {
                    println!("{:?}", e);
                }
            }
            println!("stats={:?} res={:?}", r.stats, r.final_resources);
        }
        _ => {
            eprintln!("usage: brushsim run --script S [--seed N --cap N --strategy S --fe dashc|file|stdin|source|eval]");
            std::process::exit(2);
        }
    }
}
