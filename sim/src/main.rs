#![allow(dead_code)]
mod builtins;
mod c11;
mod c12;
mod c15;
mod c16;
mod c17;
mod c18;
mod c20;
mod check;
mod procs;
mod runner;
mod streams;
mod world;

use runner::{FrontEnd, RunSpec};
use world::{SimConfig, Strategy};

fn arg_val(args: &[String], name: &str) -> Option<String> {
    args.iter().position(|a| a == name).and_then(|i| args.get(i + 1).cloned())
}

fn parse_strategy(s: &str) -> Strategy {
    match s {
        "uniform" => Strategy::Uniform,
        "runlong" => Strategy::RunLong,
        "lowest" => Strategy::LowestId,
        "highest" => Strategy::HighestId,
        x if x.starts_with("sticky") => Strategy::Sticky(x[6..].parse().unwrap_or(80)),
        x if x.starts_with("starve") => Strategy::Starve(x[6..].parse().unwrap_or(0)),
        x if x.starts_with("pct") => Strategy::Pct { d: x[3..].parse().unwrap_or(2), horizon: 200 },
        _ => Strategy::RunLong,
    }
}

fn parse_fe(s: &str) -> FrontEnd {
    match s {
        "file" => FrontEnd::ScriptFile,
        "stdin" => FrontEnd::Stdin,
        "source" => FrontEnd::Source,
        "eval" => FrontEnd::Eval,
        _ => FrontEnd::DashC,
    }
}

fn main() {
    let args: Vec<String> = std::env::args().collect();
    runner::install_hooks();
    match args.get(1).map(String::as_str) {
        Some("run") => {
            let script = arg_val(&args, "--script").unwrap_or_default();
            let mut cfg = SimConfig::default();
            cfg.seed = arg_val(&args, "--seed").and_then(|s| s.parse().ok()).unwrap_or(1);
            cfg.capacity = arg_val(&args, "--cap").and_then(|s| s.parse().ok()).unwrap_or(65536);
            cfg.strategy = parse_strategy(&arg_val(&args, "--strategy").unwrap_or_default());
            cfg.budget = arg_val(&args, "--budget").and_then(|s| s.parse().ok()).unwrap_or(20000);
            if let Some(c) = arg_val(&args, "--chunks") {
                cfg.stdin_chunks = c.split(',').filter_map(|x| x.parse().ok()).collect();
            }
            let fe = parse_fe(&arg_val(&args, "--fe").unwrap_or_default());
            let reps: u64 = arg_val(&args, "--reps").and_then(|s| s.parse().ok()).unwrap_or(1);
            let mut spec = RunSpec::new(script, fe, cfg);
            spec.needs_dir = args.iter().any(|a| a == "--dir");
            spec.via_entry = args.iter().any(|a| a == "--entry");
            let t = std::time::Instant::now();
            let mut last = None;
            let mut hashes = std::collections::HashSet::new();
            for i in 0..reps {
                let mut s = spec.clone();
                s.cfg.seed = spec.cfg.seed + i;
                let r = runner::run(&s);
                hashes.insert(r.loghash);
                last = Some(r);
            }
            let r = last.unwrap();
            eprintln!("reps={} wall={:?} distinct_hashes={}", reps, t.elapsed(), hashes.len());
            println!("status={:?} result={:?} fe_err={:?} abort={:?}", r.status, r.result_code, r.front_end_error, r.abort);
            println!("decisions={} parts={} pipes={} clock={} hash={:x} harness_error={:?}", r.decisions, r.participants, r.pipes, r.clock, r.loghash, r.harness_error);
            println!("--- stdout\n{}--- stderr\n{}", String::from_utf8_lossy(&r.out), String::from_utf8_lossy(&r.err));
            if args.iter().any(|a| a == "--events") {
                for e in &r.events {
                    println!("{:?}", e);
                }
            }
            println!("stats={:?} res={:?}", r.stats, r.final_resources);
        }
        Some("check") => {
            let id = args.get(2).cloned().unwrap_or_default();
            let tier = if args.get(3).map(String::as_str) == Some("thorough") { check::Tier::Thorough } else { check::Tier::Quick };
            let Some(c) = get_check(&id) else {
                println!("HARNESS-ERROR unknown check {id}");
                std::process::exit(2);
            };
            let seed = std::env::var("VERIF_SEED").ok().and_then(|s| s.parse().ok()).unwrap_or(1u64);
            let workers = std::env::var("VERIF_WORKERS").ok().and_then(|s| s.parse().ok()).unwrap_or_else(|| {
                std::thread::available_parallelism().map(|n| n.get() as u64).unwrap_or(4)
            });
            let secs = std::env::var("VERIF_SECS").ok().and_then(|s| s.parse().ok());
            let code = check::orchestrate(c, &check::CheckOpts { tier, seed, workers, secs });
            std::process::exit(code);
        }
        Some("worker") => {
            let id = args.get(2).cloned().unwrap_or_default();
            let tier = if args.get(3).map(String::as_str) == Some("thorough") { check::Tier::Thorough } else { check::Tier::Quick };
            let p = |i: usize| args.get(i).and_then(|s| s.parse::<u64>().ok()).unwrap_or(0);
            let Some(c) = get_check(&id) else { std::process::exit(2) };
            let s = check::worker(c, tier, p(4), p(5), p(6).max(1), p(7), p(8).max(1));
            println!("{}", serde_json::to_string(&s).unwrap());
        }
        Some("hashes") => {
            let id = args.get(2).cloned().unwrap_or_default();
            let tier = if args.get(3).map(String::as_str) == Some("thorough") { check::Tier::Thorough } else { check::Tier::Quick };
            let Some(c) = get_check(&id) else { std::process::exit(2) };
            for s in &args[4..] {
                let seed: u64 = s.parse().unwrap_or(0);
                let v = c.execute(&c.generate(seed, tier));
                println!("{}", serde_json::to_string(&(seed, v.hashes)).unwrap());
            }
        }
        Some("parse-ref") => {
            let os: u8 = args.get(2).and_then(|s| s.parse().ok()).unwrap_or(0);
            c15::parse_ref_main(os);
        }
        Some("exec-history") => {
            c15::exec_history_main();
        }
        Some("determinism") => {
            // every seed executed in PROCS concurrent processes and once pinned to one core;
            // all event-log hashes must agree
            let id = args.get(2).cloned().unwrap_or_default();
            let n: u64 = args.get(3).and_then(|s| s.parse().ok()).unwrap_or(500);
            let procs: usize = args.get(4).and_then(|s| s.parse().ok()).unwrap_or(24);
            let base: u64 = std::env::var("VERIF_SEED").ok().and_then(|s| s.parse().ok()).unwrap_or(1);
            let seeds: Vec<String> = (0..n).map(|i| check::seed_for(base, &id, i).to_string()).collect();
            let exe = std::env::current_exe().unwrap();
            let t = std::time::Instant::now();
            let mut children = vec![];
            for p in 0..=procs {
                let mut cmd = if p == procs {
                    let mut c = std::process::Command::new("taskset");
                    c.args(["-c", "0"]).arg(&exe);
                    c
                } else {
                    std::process::Command::new(&exe)
                };
                cmd.args(["hashes", &id, "quick"]).args(&seeds).stdout(std::process::Stdio::piped());
                children.push(cmd.spawn().expect("spawn"));
            }
            let outs: Vec<String> = children.into_iter().map(|c| String::from_utf8_lossy(&c.wait_with_output().expect("wait").stdout).to_string()).collect();
            let mut bad = 0;
            for (i, o) in outs.iter().enumerate().skip(1) {
                if *o != outs[0] {
                    bad += 1;
                    let l0: Vec<&str> = outs[0].lines().collect();
                    let li: Vec<&str> = o.lines().collect();
                    let first = l0.iter().zip(li.iter()).position(|(a, b)| a != b);
                    println!("MISMATCH process {i}: first differing line {:?} (lines {} vs {})", first, l0.len(), li.len());
                }
            }
            let distinct: std::collections::HashSet<&str> = outs[0].lines().collect();
            println!(
                "determinism {id}: seeds={n} processes={} (+1 pinned to one core) lines={} distinct_hash_lines={} mismatching_processes={bad} wall={:.1}s",
                procs,
                outs[0].lines().count(),
                distinct.len(),
                t.elapsed().as_secs_f64()
            );
            std::process::exit(if bad == 0 && outs[0].lines().count() as u64 == n { 0 } else { 2 });
        }
        Some("gen") => {
            let id = args.get(2).cloned().unwrap_or_default();
            let Some(c) = get_check(&id) else { std::process::exit(2) };
            let seed: u64 = args.get(3).and_then(|s| s.parse().ok()).unwrap_or(1);
            println!("{}", serde_json::to_string_pretty(&c.generate(seed, check::Tier::Quick)).unwrap());
        }
        Some("exec-cases") => {
            // a JSON array of cases on stdin; one verdict line per case, in order
            let id = args.get(2).cloned().unwrap_or_default();
            let Some(c) = get_check(&id) else { std::process::exit(2) };
            let Some(cases) = check::read_stdin_json() else { std::process::exit(2) };
            check::install_watchdog();
            for case in cases.as_array().cloned().unwrap_or_default() {
                check::heartbeat(true);
                let v = c.execute(&case);
                check::heartbeat(false);
                println!("{}", serde_json::to_string(&v).unwrap());
            }
        }
        Some("exec-case") => {
            let id = args.get(2).cloned().unwrap_or_default();
            let Some(c) = get_check(&id) else { std::process::exit(2) };
            let Some(case) = check::read_stdin_json() else { std::process::exit(2) };
            check::install_watchdog();
            let v = c.execute(&case);
            println!("{}", serde_json::to_string(&v).unwrap());
        }
        Some("replay") => {
            let path = args.get(2).cloned().unwrap_or_default();
            let Ok(s) = std::fs::read_to_string(&path) else {
                println!("HARNESS-ERROR cannot read {path}");
                std::process::exit(2);
            };
            let v: serde_json::Value = serde_json::from_str(&s).unwrap_or_default();
            let id = v["property"].as_str().unwrap_or_default().to_string();
            let Some(c) = get_check(&id) else { std::process::exit(2) };
            if v["class"].as_str().is_some_and(|c| c.ends_with("/crash")) {
                // the case kills the process that executes it: run it in a child
                use std::io::Write as _;
                use std::os::unix::process::ExitStatusExt as _;
                let mut child = std::process::Command::new(std::env::current_exe().unwrap())
                    .args(["exec-case", &id])
                    .stdin(std::process::Stdio::piped())
                    .stdout(std::process::Stdio::piped())
                    .spawn()
                    .expect("spawn");
                let _ = child.stdin.take().unwrap().write_all(v["case"].to_string().as_bytes());
                let out = child.wait_with_output().expect("wait");
                let verdict = String::from_utf8_lossy(&out.stdout).lines().any(|l| l.starts_with('{'));
                match (out.status.signal(), verdict) {
                    (Some(sig), _) => {
                        println!("REPRODUCED property={id} class={id}/crash detail=killed by signal {sig}");
                        std::process::exit(1);
                    }
                    (None, false) => {
                        println!("REPRODUCED property={id} class={id}/crash detail=ended without a verdict (exit {:?})", out.status.code());
                        std::process::exit(1);
                    }
                    (None, true) => {
                        println!("NOT-REPRODUCED property={id} (exit {:?})", out.status.code());
                        std::process::exit(0);
                    }
                }
            }
            let verdict = c.execute(&v["case"]);
            if let Some(e) = verdict.harness_error {
                println!("HARNESS-ERROR {e}");
                std::process::exit(2);
            }
            match verdict.violation {
                Some(viol) => {
                    println!("REPRODUCED property={id} class={} detail={}", viol.class, viol.detail);
                    if v["class"].as_str().is_some_and(|c| c != viol.class) {
                        println!("note: recorded class was {}", v["class"]);
                    }
                    std::process::exit(1);
                }
                None => {
                    println!("PASS property={id} (no violation on this tree)");
                    std::process::exit(0);
                }
            }
        }
        _ => {
            eprintln!("usage: brushsim run --script S [--seed N --cap N --strategy S --fe dashc|file|stdin|source|eval]");
            std::process::exit(2);
        }
    }
}

fn get_check(id: &str) -> Option<&'static dyn check::Check> {
    match id {
        "C11" => Some(&c11::C11),
        "C12" => Some(&c12::C12),
        "C15" => Some(&c15::C15),
        "C16" => Some(&c16::C16),
        "C17" => Some(&c17::C17),
        "C18" => Some(&c18::C18),
        "C20" => Some(&c20::C20),
        _ => None,
    }
}
