//! Simulated external processes: programs whose names the harness owns run as participants of
//! their own over the descriptors the child would have inherited. Everything up to the spawn
//! (path search, argument and environment composition, descriptor selection) and everything
//! after it (ChildProcess::wait / poll, status decoding) is the shell's real code.

use std::io::{Read, Write};

use brush_core::openfiles::OpenFile;
use brush_core::verif::SimChild;

use crate::world;

pub const PROGRAMS: &[&str] = &["xseq", "xcat", "xhead", "xexit", "xsig", "xsleep", "xtrue", "xfalse", "xwork"];

const SIGPIPE_RAW: i32 = 13;

fn num(args: &[String], i: usize, default: u64) -> u64 {
    args.get(i).and_then(|s| s.parse().ok()).unwrap_or(default)
}

fn exit_raw(code: u8) -> i32 {
    (code as i32) << 8
}

fn write_all(out: &mut Option<OpenFile>, data: &[u8]) -> Result<(), i32> {
    match out {
        None => Err(exit_raw(1)),
        Some(f) => match f.write_all(data) {
            Ok(()) => Ok(()),
            Err(e) if e.kind() == std::io::ErrorKind::BrokenPipe => Err(SIGPIPE_RAW),
            Err(_) => Err(exit_raw(1)),
        },
    }
}

fn behave(name: &str, args: &[String], mut stdin: Option<OpenFile>, mut stdout: Option<OpenFile>) -> i32 {
    match name {
        "xtrue" => exit_raw(0),
        "xfalse" => exit_raw(1),
        "xsleep" => {
            world::sim_sleep(num(args, 0, 1));
            exit_raw(0)
        }
        "xwork" => {
            // xwork DUR K [STATUS]: a background job's work done by an external program:
            // start marker, DUR of simulated time, one line "K" on stdout, done marker
            let k = num(args, 1, 0);
            world::probe_event(format!("s{k}"), 0, 1, vec![], vec![]);
            world::sim_sleep(num(args, 0, 1));
            if let Some(i) = stdin.as_mut() {
                let mut buf = [0u8; 256];
                while matches!(i.read(&mut buf), Ok(n) if n > 0) {}
            }
            if let Err(raw) = write_all(&mut stdout, format!("{k}\n").as_bytes()) {
                return raw;
            }
            drop(stdout.take());
            world::probe_event(format!("d{k}"), 0, 1, vec![], vec![]);
            exit_raw(num(args, 2, 0) as u8)
        }
        "xexit" => {
            if args.get(1).is_some_and(|s| s == "drain") {
                if let Some(i) = stdin.as_mut() {
                    let mut buf = [0u8; 256];
                    while matches!(i.read(&mut buf), Ok(n) if n > 0) {}
                }
            }
            exit_raw(num(args, 0, 0) as u8)
        }
        "xsig" => {
            // dies of signal N (after optionally draining its input)
            if args.get(1).is_some_and(|s| s == "drain") {
                if let Some(i) = stdin.as_mut() {
                    let mut buf = [0u8; 256];
                    while matches!(i.read(&mut buf), Ok(n) if n > 0) {}
                }
            }
            (num(args, 0, 15) as i32) & 0x7f
        }
        "xseq" => {
            let n = num(args, 0, 1);
            let tag = args.get(1).cloned().unwrap_or_default();
            let pad = "x".repeat(num(args, 2, 0) as usize);
            for i in 1..=n {
                if let Err(raw) = write_all(&mut stdout, format!("{tag}{i}{pad}\n").as_bytes()) {
                    return raw;
                }
            }
            exit_raw(0)
        }
        "xcat" => {
            let mut buf = vec![0u8; num(args, 0, 512).max(1) as usize];
            let Some(i) = stdin.as_mut() else { return exit_raw(0) };
            loop {
                match i.read(&mut buf) {
                    Ok(0) => return exit_raw(0),
                    Ok(n) => {
                        if let Err(raw) = write_all(&mut stdout, &buf[..n]) {
                            return raw;
                        }
                    }
                    Err(_) => return exit_raw(1),
                }
            }
        }
        "xhead" => {
            let k = num(args, 0, 1);
            let mut buf = vec![0u8; num(args, 1, 64).max(1) as usize];
            let Some(i) = stdin.as_mut() else { return exit_raw(0) };
            let mut lines = 0u64;
            while lines < k {
                let n = match i.read(&mut buf) {
                    Ok(0) => break,
                    Ok(n) => n,
                    Err(_) => return exit_raw(1),
                };
                let mut end = 0;
                for (j, b) in buf[..n].iter().enumerate() {
                    end = j + 1;
                    if *b == b'\n' {
                        lines += 1;
                        if lines >= k {
                            break;
                        }
                    }
                }
                if let Err(raw) = write_all(&mut stdout, &buf[..end]) {
                    return raw;
                }
            }
            exit_raw(0)
        }
        _ => exit_raw(127),
    }
}

pub fn sim_spawn(program: &str, args: &[String], fds: Vec<(brush_core::ShellFd, OpenFile)>) -> Option<SimChild> {
    let name = std::path::Path::new(program).file_name()?.to_string_lossy().to_string();
    if !PROGRAMS.contains(&name.as_str()) {
        return None;
    }
    let tok = world::task_spawn("proc");
    let pid = 10_000 + tok as i32;
    world::proc_register(pid, tok as usize);
    let gen_id = world::current_gen();
    let (tx, rx) = tokio::sync::oneshot::channel::<i32>();
    let args: Vec<String> = args.to_vec();
    let _jh = tokio::task::spawn_blocking(move || {
        world::task_begin(tok);
        struct End(u64);
        impl Drop for End {
            fn drop(&mut self) {
                world::task_end(self.0);
            }
        }
        let _end = End(tok);
        let mut stdin = None;
        let mut stdout = None;
        let mut others = vec![];
        for (fd, f) in fds {
            match fd {
                0 => stdin = Some(f),
                1 => stdout = Some(f),
                _ => others.push(f),
            }
        }
        let raw = behave(&name, &args, stdin, stdout);
        world::proc_exited(args.last().cloned().unwrap_or_default(), raw);
        // the process is gone: every descriptor it inherited is closed, then its status
        // becomes available, then the participant ends
        drop(others);
        let _ = tx.send(raw);
    });
    world::yield_point(world::OP_SPAWN, tok, 1);
    let exit = async move {
        let raw = rx.await.unwrap_or((1) << 8);
        world::proc_reaped(gen_id);
        raw
    };
    Some(SimChild { pid, exit: Box::pin(exit) })
}

/// `exec PROGRAM ARGS`: a program the harness owns runs to completion on the calling participant
/// over the descriptors it would inherit; then the run ends at once with its status, as if the
/// process image had been replaced (nothing else of the shell runs any more).
pub fn sim_exec(program: &str, args: &[String], fds: Vec<(brush_core::ShellFd, OpenFile)>) {
    let Some(name) = std::path::Path::new(program).file_name().map(|n| n.to_string_lossy().to_string()) else { return };
    if !PROGRAMS.contains(&name.as_str()) {
        return;
    }
    let mut stdin = None;
    let mut stdout = None;
    for (fd, f) in fds {
        match fd {
            0 => stdin = Some(f),
            1 => stdout = Some(f),
            _ => {}
        }
    }
    let raw = behave(&name, args, stdin, stdout);
    world::exec_replace(raw);
}

/// Directory holding the (empty) executables that make the owned names resolvable through PATH.
pub fn bin_dir() -> std::path::PathBuf {
    use std::os::unix::fs::PermissionsExt;
    let d = crate::runner::scratch_root().join("bin");
    static READY: std::sync::OnceLock<()> = std::sync::OnceLock::new();
    READY.get_or_init(|| {
        let _ = std::fs::create_dir_all(&d);
        for p in PROGRAMS {
            let f = d.join(p);
            let _ = std::fs::write(&f, "#!/bin/false\n");
            let _ = std::fs::set_permissions(&f, std::fs::Permissions::from_mode(0o755));
        }
    });
    d
}
