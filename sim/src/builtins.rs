//! Harness builtins: scripted stage behaviours and observation points. They are registered
//! through the public `builtins::Registration` seam and do all their I/O through the
//! execution context's descriptors, like any other builtin.

use std::io::{Read, Write};

use brush_core::builtins::{ContentOptions, ContentType, SimpleCommand};
use brush_core::{ExecutionContext, ExecutionResult, ShellExtensions, builtins, error};

use crate::world;

fn no_content(name: &str) -> Result<String, error::Error> {
    Ok(format!("{name}: harness builtin\n"))
}

macro_rules! simple {
    ($t:ident, $body:expr) => {
        pub struct $t;
        impl SimpleCommand for $t {
            fn get_content(name: &str, _t: ContentType, _o: &ContentOptions) -> Result<String, error::Error> {
                no_content(name)
            }
            fn execute<SE: ShellExtensions, I: Iterator<Item = S>, S: AsRef<str>>(
                context: ExecutionContext<'_, SE>,
                args: I,
            ) -> Result<ExecutionResult, error::Error> {
                let args: Vec<String> = args.map(|s| s.as_ref().to_string()).collect();
                let f: fn(ExecutionContext<'_, SE>, &[String]) -> Result<ExecutionResult, error::Error> = $body;
                f(context, &args[1..])
            }
        }
    };
}

fn num(args: &[String], i: usize, default: u64) -> u64 {
    args.get(i).and_then(|s| s.parse().ok()).unwrap_or(default)
}

// probe TAG [extra...]: record an observation in the simulator's event log (no I/O).
simple!(Probe, |context, args| {
    // the scheduling point comes first: everything recorded below is observed at the
    // instant the event gets its sequence number
    world::yield_point(world::OP_PROBE, 0, 0);
    let status = context.shell.last_exit_status();
    let depth = context.shell.depth();
    let jobs: Vec<usize> = context.shell.jobs().jobs.iter().map(|j| j.id).collect();
    let tag = args.first().cloned().unwrap_or_default();
    let wd = context.shell.working_dir().to_path_buf();
    let extra = args
        .iter()
        .skip(1)
        .map(|a| match a.strip_prefix('@') {
            Some(f) => std::fs::read_to_string(wd.join(f)).unwrap_or_else(|_| "<missing>".into()),
            // `%traps`: how many ERR-handler frames are on the call stack right now
            None if a == "%traps" => context
                .shell
                .call_stack()
                .iter()
                .filter(|f| matches!(f.frame_type, brush_core::callstack::FrameType::TrapHandler(brush_core::traps::TrapSignal::Err)))
                .count()
                .to_string(),
            None => a.clone(),
        })
        .collect();
    world::probe_event(tag, status, depth, jobs, extra);
    Ok(ExecutionResult::success())
});

// simseq N [TAG] [PADLEN]: N lines "TAG<i>" followed by PADLEN 'x' characters.
simple!(SimSeq, |context, args| {
    let n = num(args, 0, 1);
    let tag = args.get(1).cloned().unwrap_or_default();
    let pad = "x".repeat(num(args, 2, 0) as usize);
    let mut out = context.stdout();
    for i in 1..=n {
        let line = format!("{tag}{i}{pad}\n");
        out.write_all(line.as_bytes())?;
    }
    out.flush()?;
    Ok(ExecutionResult::success())
});

// simcat [BUF]: copy stdin to stdout with a BUF-byte buffer.
simple!(SimCat, |context, args| {
    let bufsz = num(args, 0, 512).max(1) as usize;
    let mut inp = context.stdin();
    let mut out = context.stdout();
    let mut buf = vec![0u8; bufsz];
    loop {
        let n = inp.read(&mut buf)?;
        if n == 0 {
            break;
        }
        out.write_all(&buf[..n])?;
    }
    out.flush()?;
    Ok(ExecutionResult::success())
});

// simhead K [BUF]: copy the first K lines, then exit without reading further.
simple!(SimHead, |context, args| {
    let k = num(args, 0, 1);
    let bufsz = num(args, 1, 64).max(1) as usize;
    let mut inp = context.stdin();
    let mut out = context.stdout();
    let mut buf = vec![0u8; bufsz];
    let mut lines = 0u64;
    'outer: while lines < k {
        let n = inp.read(&mut buf)?;
        if n == 0 {
            break;
        }
        let mut end = 0;
        for (i, b) in buf[..n].iter().enumerate() {
            end = i + 1;
            if *b == b'\n' {
                lines += 1;
                if lines >= k {
                    out.write_all(&buf[..end])?;
                    break 'outer;
                }
            }
        }
        out.write_all(&buf[..end])?;
    }
    out.flush()?;
    Ok(ExecutionResult::success())
});

// simexit STATUS [drain]: optionally drain stdin, then return STATUS.
simple!(SimExit, |context, args| {
    let st = num(args, 0, 0) as u8;
    if args.get(1).is_some_and(|s| s == "drain") {
        let mut inp = context.stdin();
        let mut buf = [0u8; 256];
        while inp.read(&mut buf)? > 0 {}
    }
    Ok(ExecutionResult::new(st))
});

// simsleep D: block for D units of simulated time.
simple!(SimSleep, |_context, args| {
    world::sim_sleep(num(args, 0, 1));
    Ok(ExecutionResult::success())
});

// simres TAG: sample resource counters inside the shell.
simple!(SimRes, |context, args| {
    let tag = args.first().cloned().unwrap_or_default();
    // sample at quiescence: every other participant has finished (a participant that can
    // never finish shows up as a deadlock, i.e. as a leaked task)
    if context.shell.depth() == 0 {
        world::wait_all_quiet();
    } else {
        world::yield_point(world::OP_PROBE, 1, 0);
    }
    let r = crate::runner::sample_resources(context.shell);
    let status = context.shell.last_exit_status();
    world::probe_event(
        format!("res:{tag}"),
        status,
        context.shell.depth(),
        context.shell.jobs().jobs.iter().map(|j| j.id).collect(),
        vec![serde_json::to_string(&r).unwrap_or_default()],
    );
    Ok(ExecutionResult::new(status))
});

// simsnap TAG: record a full state snapshot of the executing shell.
simple!(SimSnap, |context, args| {
    let tag = args.first().cloned().unwrap_or_default();
    world::yield_point(world::OP_PROBE, 2, 0);
    let snap = crate::runner::snapshot(context.shell);
    let status = context.shell.last_exit_status();
    world::probe_event(format!("snap:{tag}"), status, context.shell.depth(), vec![], vec![snap.to_string()]);
    Ok(ExecutionResult::new(status))
});

pub fn register<SE: ShellExtensions>(
    map: &mut std::collections::HashMap<String, builtins::Registration<SE>>,
) {
    map.insert("probe".into(), builtins::simple_builtin::<Probe, SE>());
    map.insert("simseq".into(), builtins::simple_builtin::<SimSeq, SE>());
    map.insert("simcat".into(), builtins::simple_builtin::<SimCat, SE>());
    map.insert("simhead".into(), builtins::simple_builtin::<SimHead, SE>());
    map.insert("simexit".into(), builtins::simple_builtin::<SimExit, SE>());
    map.insert("simsleep".into(), builtins::simple_builtin::<SimSleep, SE>());
    map.insert("simsnap".into(), builtins::simple_builtin::<SimSnap, SE>());
    map.insert("simres".into(), builtins::simple_builtin::<SimRes, SE>());
}
